#!/bin/sh
# usage: confirm_mutant.sh <ID> [command...]: runs the demonstration with and without the change (no git stash: shared between worktrees)
id=$1; shift
export GOFLAGS=-mod=mod GOPROXY=off GOSUMDB=off GOTOOLCHAIN=local
wt=/tmp/mut/wt-$id; demo=/tmp/mut/demo-$id
cd $wt || exit 2
if ! git diff | diff -q - $demo/patch.diff >/dev/null; then echo "!! worktree diff differs from patch.diff: restoring from patch.diff"; git checkout -- . && git apply $demo/patch.diff || exit 2; fi
git diff --stat | tail -1
echo "--- existing tests WITH change"; go test -vet=off -count=1 ./core/logging/... ./core/statecache/... ./core/util/wmpt/... 2>&1 | grep -E "^(--- FAIL|ok|FAIL|panic)" | sort | uniq -c
cd $demo; if ls *_test.go >/dev/null 2>&1; then cmd="go test -count=1 ."; else cmd="go run ."; fi
[ -n "$*" ] && cmd="$*"
echo "--- demo WITH change: $cmd"; timeout 900 $cmd > /tmp/demo-with-$id.out 2>&1; echo "rc=$?"; tail -4 /tmp/demo-with-$id.out | cut -c1-300
cd $wt && git checkout -- .
cd $demo; echo "--- demo WITHOUT change"; timeout 900 $cmd > /tmp/demo-without-$id.out 2>&1; echo "rc=$?"; tail -2 /tmp/demo-without-$id.out | cut -c1-300
cd $wt && git apply $demo/patch.diff && git diff --stat | tail -1
