package simrt
