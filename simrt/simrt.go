// Package simrt is the seeded task scheduler used by the concurrency checks.
//
// The code under test is an instrumented copy of /repo (see /verif/instrument):
// every Lock/RLock/Unlock/RUnlock call is routed through the wrappers below and
// simrt.Yield(site) is inserted before every statement of the anchored files
// that touches shared state.  Registered tasks are real goroutines, exactly one
// of which runs at a time; at every yield point and lock acquisition the
// scheduler's Choose function (driven by the run's PRNG or by a recorded
// schedule) decides who runs next.  The real mutexes remain the only lock
// state (TryLock): if a change to /repo drops a Lock() call there simply is no
// lock, and the scheduler interleaves inside.
//
// The hand-off between scheduler and tasks uses one private pipe per task and
// raw read/write system calls inside //go:norace functions, which the race
// detector does not treat as synchronisation: its happens-before graph then
// contains only the code's own synchronisation, and a data race is reported
// deterministically under the chosen schedule.  Scheduler state lives in plain
// slices and struct fields touched only inside //go:norace functions (no Go
// maps, no closures: runtime map routines and closure bodies are instrumented
// regardless of the pragma).
package simrt

import (
	"fmt"
	"reflect"
	"runtime"
	"sort"
	"sync"
	"syscall"
	"time"
	"unsafe"
)

type pipe struct{ r, w int }

func newPipe() pipe {
	var p [2]int
	if err := syscall.Pipe(p[:]); err != nil {
		panic(err)
	}
	return pipe{p[0], p[1]}
}

//go:norace
func (p pipe) wait() byte {
	var b [1]byte
	for {
		n, _, e := syscall.Syscall(syscall.SYS_READ, uintptr(p.r), uintptr(unsafe.Pointer(&b[0])), 1)
		if e == syscall.EINTR {
			continue
		}
		if n == 1 {
			return b[0]
		}
		panic(fmt.Sprint("simrt: pipe read failed ", n, e))
	}
}

//go:norace
func (p pipe) signal(v byte) {
	b := [1]byte{v}
	for {
		n, _, e := syscall.Syscall(syscall.SYS_WRITE, uintptr(p.w), uintptr(unsafe.Pointer(&b[0])), 1)
		if e == syscall.EINTR {
			continue
		}
		if n == 1 {
			return
		}
		panic(fmt.Sprint("simrt: pipe write failed ", n, e))
	}
}

func (p pipe) close() { syscall.Close(p.r); syscall.Close(p.w) }

const (
	stRunnable = iota
	stBlocked
	stDone
)

// idleAddr is what a task polling channels (an instrumented select) is blocked on: any step of another task wakes it.
const idleAddr = ^uintptr(0)

type task struct {
	id     int
	p      pipe
	state  int
	waitOn uintptr
	site   int
	fn     func()
	panicV interface{}
	wantW  bool // blocked in Lock (a writer waiting): sync.RWMutex lets no new reader in meanwhile
	pickN  int  // > 0: the task asks the scheduler to choose among pickN alternatives (Pick)
	pickK  int
}

// Chooser decides which of the enabled tasks runs next (returns an index into enabled).
type Chooser interface {
	Choose(step int, enabled []int, sites []int) int
}

// Picker is implemented by choosers that also decide choices other than "who runs next" (Pick).
type Picker interface {
	Pick(n int) int
}

// Sched is one scheduled execution.
type Sched struct {
	tasks    []*task
	back     pipe
	goids    []int64
	ch       Chooser
	Steps    int
	Switches int
	Trace    []int32 // task chosen at each decision with more than one enabled task
	TrSites  []int32 // site of the chosen task at those decisions
	MaxSteps int
	Panics   []interface{}
	last     int
	seq      int64
	reg      pipe
	wg       sync.WaitGroup
	Spawned  int // goroutines the code under test started itself and that ran as scheduled tasks
}

var cur *Sched // one simulation at a time per process

//go:norace
func goid() int64 {
	var buf [40]byte
	n := runtime.Stack(buf[:], false)
	var id int64
	for i := 10; i < n; i++ { // "goroutine 123 ["
		c := buf[i]
		if c < '0' || c > '9' {
			break
		}
		id = id*10 + int64(c-'0')
	}
	return id
}

//go:norace
func me() *task {
	s := cur
	if s == nil {
		return nil
	}
	g := goid()
	for i := 0; i < len(s.goids); i++ {
		if s.goids[i] == g {
			return s.tasks[i]
		}
	}
	return nil
}

// Now returns the scheduler's global step counter (event sequence number);
// 0 outside a simulation.
//
//go:norace
func Now() int64 {
	if s := cur; s != nil {
		return int64(s.Steps)
	}
	return 0
}

// Stamp returns a fresh event sequence number (strictly increasing in real
// execution order: only one task runs at a time).  Used for invoke/return
// stamps of recorded histories.
//
//go:norace
func Stamp() int64 {
	if s := cur; s != nil {
		s.seq++
		return s.seq
	}
	return 0
}

// Run executes fns as tasks under the scheduler.  It returns an error for a
// deadlock among instrumented locks or when the step cap is hit.
//
//go:norace
func Run(ch Chooser, maxSteps int, fns ...func()) (*Sched, error) {
	s := &Sched{back: newPipe(), ch: ch, MaxSteps: maxSteps, last: -1, reg: newPipe()}
	defer s.back.close()
	defer s.reg.close()
	for i, fn := range fns {
		s.tasks = append(s.tasks, &task{id: i, p: newPipe(), fn: fn})
		s.goids = append(s.goids, 0)
	}
	cur = s
	for i := 0; i < len(fns); i++ {
		s.wg.Add(1)
		go s.taskMain(s.tasks[i])
		s.reg.wait()
	}
	err := s.loop()
	if err == nil {
		s.wg.Wait()
	}
	cur = nil
	s.Panics = make([]interface{}, len(s.tasks))
	for _, t := range s.tasks {
		s.Panics[t.id] = t.panicV
		if err == nil {
			t.p.close()
		}
	}
	return s, err
}

// Go replaces `go func() {...}()` in the anchored files of the instrumented copy: a goroutine started by a
// registered task becomes a task of its own, so the scheduler decides when it runs relative to everybody else
// (a goroutine started outside a simulation, or by an unregistered goroutine, is started as usual).
//
//go:norace
func Go(fn func()) {
	s := cur
	if s == nil || me() == nil {
		go fn()
		return
	}
	t := &task{id: len(s.tasks), p: newPipe(), fn: fn}
	s.tasks = append(s.tasks, t)
	s.goids = append(s.goids, 0)
	s.Spawned++
	s.wg.Add(1)
	go s.taskMain(t)
	s.reg.wait()
}

// Pick lets the scheduler choose among n alternatives: which case an instrumented select looks at first (Go's
// select chooses among ready cases at random; here that choice belongs to the schedule and replays).
//
//go:norace
func Pick(site, n int) int {
	t := me()
	if t == nil || n <= 1 {
		return 0
	}
	t.site = site
	t.pickN = n
	cur.back.signal(byte(t.id))
	t.p.wait()
	return t.pickK
}

// Idle is called by an instrumented select (rewritten into a polling loop) when none of its cases is ready: the
// task is blocked until some other task has made a step.  Outside a simulation it sleeps briefly.
//
//go:norace
func Idle(site int) {
	t := me()
	if t == nil {
		time.Sleep(20 * time.Microsecond)
		return
	}
	t.site = site
	blockOn(t, idleAddr)
}

//go:norace
func (s *Sched) taskMain(t *task) {
	defer s.wg.Done()
	s.goids[t.id] = goid()
	s.reg.signal(1)
	t.p.wait()
	defer s.finish(t)
	t.fn()
}

//go:norace
func (s *Sched) finish(t *task) {
	if r := recover(); r != nil {
		t.panicV = r
	}
	t.state = stDone
	s.back.signal(byte(t.id))
}

//go:norace
func (s *Sched) loop() error {
	en := make([]int, 0, len(s.tasks))
	sites := make([]int, 0, len(s.tasks))
	for {
		en, sites = en[:0], sites[:0]
		alive := 0
		for _, t := range s.tasks {
			if t.state == stDone {
				continue
			}
			alive++
			if t.state == stRunnable {
				en = append(en, t.id)
				sites = append(sites, t.site)
			}
		}
		if alive == 0 {
			return nil
		}
		if len(en) == 0 {
			return fmt.Errorf("deadlock: all %d live tasks are blocked on instrumented locks or channels", alive)
		}
		if s.Steps >= s.MaxSteps {
			return fmt.Errorf("step cap (%d) reached", s.MaxSteps)
		}
		k := 0
		if len(en) > 1 {
			k = s.ch.Choose(s.Steps, en, sites)
			if k < 0 || k >= len(en) {
				k = 0
			}
			s.Trace = append(s.Trace, int32(en[k]))
			s.TrSites = append(s.TrSites, int32(sites[k]))
		}
		t := s.tasks[en[k]]
		if s.last >= 0 && s.last != t.id {
			s.Switches++
		}
		s.last = t.id
		s.Steps++
		t.p.signal(1)
		s.back.wait()
		for t.pickN > 0 { // the running task asked for a choice: made here, on the scheduler's side, and the task goes on
			k := 0
			if p, ok := s.ch.(Picker); ok {
				k = p.Pick(t.pickN)
			}
			if k < 0 || k >= t.pickN {
				k = 0
			}
			t.pickK, t.pickN = k, 0
			s.Trace = append(s.Trace, int32(-1-k))
			s.TrSites = append(s.TrSites, int32(t.site))
			t.p.signal(1)
			s.back.wait()
		}
		if !(t.state == stBlocked && t.waitOn == idleAddr) {
			// a step that did something (not a fruitless poll): tasks polling channels look again.  A poll that
			// found nothing ready changes nothing for the others; waking them on it would let two pollers keep
			// each other busy for ever under a strategy that prefers them (PCT).
			for _, o := range s.tasks {
				if o != t && o.state == stBlocked && o.waitOn == idleAddr {
					o.state = stRunnable
				}
			}
		}
	}
}

// Yield is a scheduling point.
//
//go:norace
func Yield(site int) {
	t := me()
	if t == nil {
		return
	}
	t.site = site
	cur.back.signal(byte(t.id))
	t.p.wait()
}

//go:norace
func (s *Sched) wake(addr uintptr) {
	for _, o := range s.tasks {
		if o.state == stBlocked && o.waitOn == addr {
			o.state = stRunnable
		}
	}
}

type tryLocker interface {
	TryLock() bool
	Lock()
	Unlock()
}
type tryRLocker interface {
	TryRLock() bool
	RLock()
	RUnlock()
}

// resolve turns &expr (expr being a mutex, a pointer to one, or a struct
// embedding one) into something with the locker methods plus a stable address.
func resolve(x interface{}) (interface{}, uintptr) {
	v := reflect.ValueOf(x)
	if v.Kind() == reflect.Ptr && v.Elem().Kind() == reflect.Ptr {
		v = v.Elem()
	}
	return v.Interface(), v.Pointer()
}

//go:norace
func blockOn(t *task, addr uintptr) {
	t.state = stBlocked
	t.waitOn = addr
	cur.back.signal(byte(t.id))
	t.p.wait()
}

// Lock replaces X.Lock() in instrumented code.
func Lock(x interface{}, site int) {
	l, addr := resolve(x)
	t := me()
	if t == nil {
		l.(tryLocker).Lock()
		return
	}
	Yield(site)
	for !l.(tryLocker).TryLock() {
		t.wantW = true
		blockOn(t, addr)
	}
	t.wantW = false
}

// writerWaiting: is another task blocked in Lock on this mutex?  sync.RWMutex refuses new readers while a writer
// waits (writer preference); a reader that would sneak past a waiting writer is a schedule the runtime never
// produces, and lock-order cycles that exist only because of that rule (reader A holds RLock and wants M, writer
// waits for A, reader B holds M and wants RLock) are real deadlocks.
//
//go:norace
func writerWaiting(t *task, addr uintptr) bool {
	for _, o := range cur.tasks {
		if o != t && o.state == stBlocked && o.waitOn == addr && o.wantW {
			return true
		}
	}
	return false
}

// RLock replaces X.RLock().
func RLock(x interface{}, site int) {
	l, addr := resolve(x)
	t := me()
	if t == nil {
		l.(tryRLocker).RLock()
		return
	}
	Yield(site)
	for {
		if writerWaiting(t, addr) {
			blockOn(t, addr)
			continue
		}
		if l.(tryRLocker).TryRLock() {
			return
		}
		blockOn(t, addr)
	}
}

// Unlock replaces X.Unlock().
func Unlock(x interface{}, site int) {
	l, addr := resolve(x)
	l.(tryLocker).Unlock()
	released(addr)
}

// RUnlock replaces X.RUnlock().
func RUnlock(x interface{}, site int) {
	l, addr := resolve(x)
	l.(tryRLocker).RUnlock()
	released(addr)
}

//go:norace
func released(addr uintptr) {
	if s := cur; s != nil && me() != nil {
		s.wake(addr)
	}
}

// Opaque is a one-way signal between a goroutine the code under test spawned itself and the task that
// waits for it, carried by a private pipe and raw system calls like the scheduler's own hand-off: the race
// detector does not see it, so waiting for the goroutine to finish (which keeps the run a function of its
// script) adds no happens-before edge between what the goroutine did and what the task does next.
type Opaque struct{ p pipe }

func NewOpaque() *Opaque { return &Opaque{p: newPipe()} }

//go:norace
func (o *Opaque) Signal() { o.p.signal(1) }

//go:norace
func (o *Opaque) Wait() { o.p.wait() }

func (o *Opaque) Close() { o.p.close() }

// Keys returns the keys of a map of the code under test in sorted order (see /verif/instrument: ranged maps
// whose iteration order other tasks could observe are visited in key order in the instrumented copy).
func Keys[K ~string, V any](m map[K]V) []K {
	ks := make([]K, 0, len(m))
	for k := range m {
		ks = append(ks, k)
	}
	sort.Slice(ks, func(a, b int) bool { return ks[a] < ks[b] })
	return ks
}
