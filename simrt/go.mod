module verif/simrt

go 1.21
