// Package grocksdb is a pure-Go *simulated RocksDB* that stands in for
// github.com/linxGnu/grocksdb (substituted through a `replace` directive in
// the harness go.mod).  It implements the API surface core/util uses, with the
// contract the code relies on: atomic write batches, ordered iteration over a
// snapshot, missing key = empty slice without error, "sync + disableWAL" is an
// error, and WAL-prefix durability (everything before the last Flush survives
// a power loss, later writes survive as a prefix of the write log).
//
// The Sim* functions and the Disk type are the fault-injection seam used by
// the harness: the write log, prefix clones (= state after a crash at any
// point), I/O errors on the n-th read/write and corrupted reads.
package grocksdb

import (
	"bytes"
	"errors"
	"sort"
	"sync"
)

type CompressionType uint

const (
	NoCompression     CompressionType = 0
	SnappyCompression CompressionType = 1
	LZ4Compression    CompressionType = 4
	ZSTDCompression   CompressionType = 7
)

type Cache struct{}

func NewLRUCache(capacity uint64) *Cache { return &Cache{} }
func (c *Cache) Destroy()                {}

type SliceTransform struct{}

func NewFixedPrefixTransform(n int) *SliceTransform { return &SliceTransform{} }

type BlockBasedTableOptions struct{}

func NewDefaultBlockBasedTableOptions() *BlockBasedTableOptions { return &BlockBasedTableOptions{} }
func (o *BlockBasedTableOptions) SetBlockCache(c *Cache)          {}
func (o *BlockBasedTableOptions) Destroy()                        {}

type Options struct{}

func NewDefaultOptions() *Options                                    { return &Options{} }
func (o *Options) Destroy()                                          {}
func (o *Options) SetCreateIfMissing(bool)                           {}
func (o *Options) SetCompression(CompressionType)                    {}
func (o *Options) SetCreateIfMissingColumnFamilies(bool)             {}
func (o *Options) OptimizeUniversalStyleCompaction(uint64)           {}
func (o *Options) OptimizeLevelStyleCompaction(uint64)               {}
func (o *Options) SetAllowMmapReads(bool)                            {}
func (o *Options) SetPrefixExtractor(*SliceTransform)                {}
func (o *Options) SetPlainTableFactory(uint32, int, float64, uint)   {}
func (o *Options) OptimizeForPointLookup(uint64)                     {}
func (o *Options) SetMaxBackgroundJobs(int)                          {}
func (o *Options) SetMaxWriteBufferNumber(int)                       {}
func (o *Options) SetWriteBufferSize(uint64)                         {}
func (o *Options) SetMinWriteBufferNumberToMerge(int)                {}
func (o *Options) IncreaseParallelism(int)                           {}
func (o *Options) SetDbLogDir(string)                                {}
func (o *Options) EnableStatistics()                                 {}
func (o *Options) SetDeleteObsoleteFilesPeriodMicros(uint64)         {}
func (o *Options) SetKeepLogFileNum(uint)                            {}
func (o *Options) SetBlockBasedTableFactory(*BlockBasedTableOptions) {}
func (o *Options) SetMaxOpenFiles(int)                               {}

type ReadOptions struct{}

func NewDefaultReadOptions() *ReadOptions { return &ReadOptions{} }
func (o *ReadOptions) Destroy()           {}
func (o *ReadOptions) SetFillCache(bool)  {}

type WriteOptions struct{ sync, nowal bool }

func NewDefaultWriteOptions() *WriteOptions { return &WriteOptions{} }
func (o *WriteOptions) SetSync(b bool)      { o.sync = b }
func (o *WriteOptions) DisableWAL(b bool)   { o.nowal = b }
func (o *WriteOptions) Destroy()            {}
func (o *WriteOptions) bad() error {
	if o != nil && o.sync && o.nowal {
		return errors.New("Invalid argument: Sync writes has to enable WAL.")
	}
	return nil
}

type TransactionOptions struct{}

func NewDefaultTransactionOptions() *TransactionOptions { return &TransactionOptions{} }
func (o *TransactionOptions) Destroy()                  {}

type FlushOptions struct{}

func NewDefaultFlushOptions() *FlushOptions { return &FlushOptions{} }
func (o *FlushOptions) Destroy()            {}
func (o *FlushOptions) SetWait(bool)        {}

type ColumnFamilyHandle struct{ id int }

func (h *ColumnFamilyHandle) Destroy() {}

type Slice struct{ data []byte }

func (s *Slice) Data() []byte { return s.data }
func (s *Slice) Size() int    { return len(s.data) }
func (s *Slice) Exists() bool { return s.data != nil }
func (s *Slice) Free()        {}

// Op is one put or delete inside a batch.
type Op struct {
	CF  int
	Del bool
	K   []byte
	V   []byte
}

type WriteBatch struct{ ops []Op }

func NewWriteBatch() *WriteBatch { return &WriteBatch{} }
func (wb *WriteBatch) Destroy()  {}
func (wb *WriteBatch) Clear()    { wb.ops = nil }
func (wb *WriteBatch) Count() int {
	return len(wb.ops)
}
func cp(b []byte) []byte { return append([]byte{}, b...) }
func (wb *WriteBatch) Put(k, v []byte) {
	wb.ops = append(wb.ops, Op{0, false, cp(k), cp(v)})
}
func (wb *WriteBatch) PutCF(h *ColumnFamilyHandle, k, v []byte) {
	wb.ops = append(wb.ops, Op{h.id, false, cp(k), cp(v)})
}
func (wb *WriteBatch) Delete(k []byte) {
	wb.ops = append(wb.ops, Op{0, true, cp(k), nil})
}
func (wb *WriteBatch) DeleteCF(h *ColumnFamilyHandle, k []byte) {
	wb.ops = append(wb.ops, Op{h.id, true, cp(k), nil})
}

// ---------------------------------------------------------------- disk model

// Batch is one atomic entry of the write log.
type Batch struct {
	Ops   []Op
	Flush bool // a Flush marker (no ops): everything before it is durable
}

// Stats counts what actually happened on a disk.
type Stats struct {
	Writes, Reads, Flushes, Iterators int
	WriteErrs, ReadErrs, CorruptReads int
}

// Disk is the simulated durable medium behind one database path.
type Disk struct {
	mu   sync.Mutex
	base []map[string][]byte
	cfs  []map[string][]byte
	log  []Batch

	// fault plan
	FailWrite map[int]bool // ordinal numbers (1-based, counted over the disk's life) of writes that return an error and are not applied
	FailRead  map[int]bool // same for point reads
	// ReadLimit > 0: point reads beyond this ordinal fail. A store whose (corrupted) content makes a trie
	// cyclic would otherwise send an unbounded traversal into a stack overflow no harness can recover from.
	ReadLimit int
	// Corrupt, when set, is applied to every value returned by a point read or iterator of cf 0
	Corrupt func(key, val []byte) []byte

	St Stats
}

var ErrInjected = errors.New("simrocks: injected I/O error")
var ErrClosed = errors.New("simrocks: database is closed")

func NewDisk() *Disk {
	d := &Disk{}
	d.ensure(2)
	return d
}

func (d *Disk) ensure(n int) {
	for len(d.cfs) < n {
		d.cfs = append(d.cfs, map[string][]byte{})
		d.base = append(d.base, map[string][]byte{})
	}
}

func copyCFs(src []map[string][]byte) []map[string][]byte {
	out := make([]map[string][]byte, len(src))
	for i, m := range src {
		out[i] = make(map[string][]byte, len(m))
		for k, v := range m {
			out[i][k] = v // values are never mutated in place
		}
	}
	return out
}

func applyOps(cfs []map[string][]byte, ops []Op) {
	for _, o := range ops {
		if o.Del {
			delete(cfs[o.CF], string(o.K))
		} else {
			cfs[o.CF][string(o.K)] = o.V
		}
	}
}

// LogLen is the number of entries in the write log since the last Rebase.
func (d *Disk) LogLen() int { d.mu.Lock(); defer d.mu.Unlock(); return len(d.log) }

// Log returns a copy of the log entries [from, to).
func (d *Disk) Log(from, to int) []Batch {
	d.mu.Lock()
	defer d.mu.Unlock()
	return append([]Batch{}, d.log[from:to]...)
}

// LastFlush returns the log length at the most recent Flush marker (0 if none):
// a power loss may roll the disk back to any prefix not shorter than this.
func (d *Disk) LastFlush() int {
	d.mu.Lock()
	defer d.mu.Unlock()
	for i := len(d.log) - 1; i >= 0; i-- {
		if d.log[i].Flush {
			return i + 1
		}
	}
	return 0
}

// CloneAtPrefix returns a new disk holding base + log[:j]: the durable state
// after a crash that let exactly the first j log entries survive.
func (d *Disk) CloneAtPrefix(j int) *Disk {
	d.mu.Lock()
	defer d.mu.Unlock()
	n := &Disk{}
	n.base = copyCFs(d.base)
	n.cfs = copyCFs(d.base)
	for _, b := range d.log[:j] {
		applyOps(n.cfs, b.Ops)
	}
	n.base = copyCFs(n.cfs)
	return n
}

// Clone returns a copy of the current volatile state as a new disk.
func (d *Disk) Clone() *Disk { return d.CloneAtPrefix(d.LogLen()) }

// Rebase makes the current state the base and empties the log.
func (d *Disk) Rebase() {
	d.mu.Lock()
	defer d.mu.Unlock()
	d.base = copyCFs(d.cfs)
	d.log = nil
}

// Keys returns the sorted keys of a column family.
func (d *Disk) Keys(cf int) [][]byte {
	d.mu.Lock()
	defer d.mu.Unlock()
	return sortedKeys(d.cfs[cf])
}

// RawGet reads without counting or faults.
func (d *Disk) RawGet(cf int, k []byte) ([]byte, bool) {
	d.mu.Lock()
	defer d.mu.Unlock()
	v, ok := d.cfs[cf][string(k)]
	return v, ok
}

// RawPut / RawDelete edit the medium directly (fault injection: lost or
// corrupted stored values); they are not part of the write log.
func (d *Disk) RawPut(cf int, k, v []byte) {
	d.mu.Lock()
	defer d.mu.Unlock()
	d.cfs[cf][string(k)] = cp(v)
}
func (d *Disk) RawDelete(cf int, k []byte) {
	d.mu.Lock()
	defer d.mu.Unlock()
	delete(d.cfs[cf], string(k))
}

func sortedKeys(m map[string][]byte) [][]byte {
	keys := make([][]byte, 0, len(m))
	for k := range m {
		keys = append(keys, []byte(k))
	}
	sort.Slice(keys, func(a, b int) bool { return bytes.Compare(keys[a], keys[b]) < 0 })
	return keys
}

func (d *Disk) write(ops []Op) error {
	d.mu.Lock()
	defer d.mu.Unlock()
	d.St.Writes++
	if d.FailWrite[d.St.Writes] {
		d.St.WriteErrs++
		return ErrInjected
	}
	applyOps(d.cfs, ops)
	d.log = append(d.log, Batch{Ops: ops})
	return nil
}

func (d *Disk) read(cf int, k []byte) ([]byte, error) {
	d.mu.Lock()
	defer d.mu.Unlock()
	d.St.Reads++
	if d.ReadLimit > 0 && d.St.Reads > d.ReadLimit {
		d.St.ReadErrs++
		return nil, ErrInjected
	}
	if d.FailRead[d.St.Reads] {
		d.St.ReadErrs++
		return nil, ErrInjected
	}
	v, ok := d.cfs[cf][string(k)]
	if !ok {
		return nil, nil
	}
	v = cp(v)
	if cf == 0 && d.Corrupt != nil {
		nv := d.Corrupt(k, v)
		if !bytes.Equal(nv, v) {
			d.St.CorruptReads++
		}
		v = nv
	}
	return v, nil
}

var (
	regMu sync.Mutex
	reg   = map[string]*Disk{}
)

// SimReset forgets every disk.
func SimReset() { regMu.Lock(); reg = map[string]*Disk{}; regMu.Unlock() }

// SimDisk returns (creating it if needed) the disk behind a path.
func SimDisk(path string) *Disk {
	regMu.Lock()
	defer regMu.Unlock()
	d, ok := reg[path]
	if !ok {
		d = NewDisk()
		reg[path] = d
	}
	return d
}

// SimSetDisk installs a disk (e.g. a crash clone) behind a path.
func SimSetDisk(path string, d *Disk) { regMu.Lock(); reg[path] = d; regMu.Unlock() }

// SimDropDisk removes a path.
func SimDropDisk(path string) { regMu.Lock(); delete(reg, path); regMu.Unlock() }

// ---------------------------------------------------------------- DB handle

type DB struct {
	d      *Disk
	closed bool
}

func OpenDbColumnFamilies(opts *Options, name string, cfNames []string, cfOpts []*Options) (*DB, []*ColumnFamilyHandle, error) {
	d := SimDisk(name)
	d.mu.Lock()
	d.ensure(len(cfNames))
	d.mu.Unlock()
	hs := make([]*ColumnFamilyHandle, len(cfNames))
	for i := range cfNames {
		hs[i] = &ColumnFamilyHandle{i}
	}
	return &DB{d: d}, hs, nil
}

func OpenDb(opts *Options, name string) (*DB, error) {
	db, _, err := OpenDbColumnFamilies(opts, name, []string{"default"}, nil)
	return db, err
}

func (db *DB) Disk() *Disk                                        { return db.d }
func (db *DB) GetPropertyCF(string, *ColumnFamilyHandle) string   { return "0" }
func (db *DB) GetProperty(string) string                          { return "0" }
func (db *DB) Close()                                             { db.closed = true }
func (db *DB) Get(ro *ReadOptions, key []byte) (*Slice, error)    { return db.get(0, key) }
func (db *DB) GetCF(ro *ReadOptions, h *ColumnFamilyHandle, key []byte) (*Slice, error) {
	return db.get(h.id, key)
}
func (db *DB) get(cf int, key []byte) (*Slice, error) {
	if db.closed {
		return nil, ErrClosed
	}
	v, err := db.d.read(cf, key)
	if err != nil {
		return nil, err
	}
	return &Slice{v}, nil
}
func (db *DB) MultiGet(ro *ReadOptions, keys ...[]byte) ([]*Slice, error) {
	out := make([]*Slice, len(keys))
	for i, k := range keys {
		s, err := db.get(0, k)
		if err != nil {
			return nil, err
		}
		out[i] = s
	}
	return out, nil
}
func (db *DB) w(wo *WriteOptions, ops []Op) error {
	if db.closed {
		return ErrClosed
	}
	if err := wo.bad(); err != nil {
		return err
	}
	return db.d.write(ops)
}
func (db *DB) Put(wo *WriteOptions, k, v []byte) error {
	return db.w(wo, []Op{{0, false, cp(k), cp(v)}})
}
func (db *DB) PutCF(wo *WriteOptions, h *ColumnFamilyHandle, k, v []byte) error {
	return db.w(wo, []Op{{h.id, false, cp(k), cp(v)}})
}
func (db *DB) Delete(wo *WriteOptions, k []byte) error {
	return db.w(wo, []Op{{0, true, cp(k), nil}})
}
func (db *DB) DeleteCF(wo *WriteOptions, h *ColumnFamilyHandle, k []byte) error {
	return db.w(wo, []Op{{h.id, true, cp(k), nil}})
}
func (db *DB) Write(wo *WriteOptions, wb *WriteBatch) error {
	return db.w(wo, append([]Op{}, wb.ops...))
}
func (db *DB) Flush(*FlushOptions) error {
	if db.closed {
		return ErrClosed
	}
	db.d.mu.Lock()
	defer db.d.mu.Unlock()
	db.d.St.Flushes++
	db.d.log = append(db.d.log, Batch{Flush: true})
	return nil
}
func (db *DB) FlushCF(*ColumnFamilyHandle, *FlushOptions) error { return db.Flush(nil) }

type Iterator struct {
	keys [][]byte
	vals [][]byte
	i    int
}

func (db *DB) NewIterator(ro *ReadOptions) *Iterator { return db.iter(0) }
func (db *DB) NewIteratorCF(ro *ReadOptions, h *ColumnFamilyHandle) *Iterator {
	return db.iter(h.id)
}
func (db *DB) iter(cf int) *Iterator {
	d := db.d
	d.mu.Lock()
	defer d.mu.Unlock()
	d.St.Iterators++
	it := &Iterator{}
	if db.closed {
		return it
	}
	it.keys = sortedKeys(d.cfs[cf])
	for _, k := range it.keys {
		v := cp(d.cfs[cf][string(k)])
		if cf == 0 && d.Corrupt != nil {
			v = d.Corrupt(k, v)
		}
		it.vals = append(it.vals, v)
	}
	return it
}
func (it *Iterator) SeekToFirst() { it.i = 0 }
func (it *Iterator) SeekToLast()  { it.i = len(it.keys) - 1 }
func (it *Iterator) Seek(k []byte) {
	it.i = sort.Search(len(it.keys), func(i int) bool { return bytes.Compare(it.keys[i], k) >= 0 })
}
func (it *Iterator) Valid() bool   { return it.i >= 0 && it.i < len(it.keys) }
func (it *Iterator) Next()         { it.i++ }
func (it *Iterator) Prev()         { it.i-- }
func (it *Iterator) Key() *Slice   { return &Slice{it.keys[it.i]} }
func (it *Iterator) Value() *Slice { return &Slice{it.vals[it.i]} }
func (it *Iterator) Err() error    { return nil }
func (it *Iterator) Close()        {}
