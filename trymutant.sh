#!/bin/sh
# usage: trymutant.sh <worktree-with-change-applied> <ID> [tier]   (does not touch /repo; replays go to /tmp)
wt=$1; id=$2; tier=${3:-quick}
cd /verif && cp evidence/$id.json /tmp/evidence-$id.bak 2>/dev/null
mkdir -p /tmp/mutant-replays
VERIF_REPLAY_DIR=/tmp/mutant-replays VERIF_REPO=$wt ./check $id $tier > /tmp/mutant-$id.out 2>&1; rc=$?
cp /tmp/evidence-$id.bak evidence/$id.json 2>/dev/null
grep -E "VIOLATION|^  |HARNESS-ERROR|quick:|thorough:" /tmp/mutant-$id.out | cut -c1-300 | head -${LINES_MAX:-8}
echo "rc=$rc"
