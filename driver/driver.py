"""Driver: build, fan out to worker processes, merge, confirm replays, evidence."""
import json, os, shutil, subprocess, sys, tempfile, time, glob

VERIF = os.path.dirname(os.path.dirname(os.path.abspath(__file__)))
REPO = os.environ.get("VERIF_REPO") or "/repo"
BUILD = os.path.join(VERIF, ".build")
if (os.environ.get("VERIF_REPO") or "/repo") != "/repo":
    # a scratch copy is being checked (seeded change): its binaries must not replace the ones built from /repo
    import atexit
    BUILD = tempfile.mkdtemp(prefix="verif-build-")
    atexit.register(lambda: shutil.rmtree(BUILD, ignore_errors=True))
HARNESS = os.path.join(VERIF, "harness")
NPROC = int(os.environ.get("VERIF_WORKERS", "16"))

from props import PROPS

def goenv():
    e = dict(os.environ)
    e.update(GOFLAGS="-mod=mod", GOPROXY="off", GOSUMDB="off", GOTOOLCHAIN="local", CGO_ENABLED="1")
    return e

def die(msg, code=2):
    print("HARNESS-ERROR: " + msg, file=sys.stderr)
    sys.stdout.flush()
    sys.exit(code)

def run(cmd, cwd=None, env=None, timeout=None, capture=True):
    p = subprocess.run(cmd, cwd=cwd, env=env or goenv(), timeout=timeout,
                       stdout=subprocess.PIPE if capture else None, stderr=subprocess.STDOUT if capture else None, text=True)
    return p.returncode, (p.stdout or "")

# ---------------------------------------------------------------- builds

def sync_gosum():
    # the harness needs the repo's go.sum entries (offline: nothing can be fetched)
    src = os.path.join(REPO, "go.sum")
    dst = os.path.join(HARNESS, "go.sum")
    have = set(open(dst).read().splitlines()) if os.path.exists(dst) else set()
    want = set(open(src).read().splitlines())
    if not want <= have:
        with open(dst, "w") as f:
            f.write("\n".join(sorted(have | want)) + "\n")

def build_plain():
    """worker built against the repository's current working tree (replace => /repo, or
    => $VERIF_REPO when a scratch copy is being checked, e.g. a seeded change)."""
    os.makedirs(BUILD, exist_ok=True)
    sync_gosum()
    out = os.path.join(BUILD, "worker")
    cmd = ["go", "build", "-o", out]
    scratch = None
    if REPO != "/repo":
        scratch = tempfile.mkdtemp(prefix="verif-mod-")
        mod = open(os.path.join(HARNESS, "go.mod")).read()
        mod = mod.replace("replace github.com/0chain/common => /repo", "replace github.com/0chain/common => " + REPO)
        open(os.path.join(scratch, "harness.mod"), "w").write(mod)
        shutil.copy(os.path.join(HARNESS, "go.sum"), os.path.join(scratch, "harness.sum"))
        cmd.append("-modfile=" + os.path.join(scratch, "harness.mod"))
    cmd.append("./cmd/worker")
    try:
        rc, o = run(cmd, cwd=HARNESS)
    finally:
        if scratch:
            shutil.rmtree(scratch, ignore_errors=True)
    if rc != 0:
        die("build of worker against %s failed:\n%s" % (REPO, o))
    return out

def build_instrumented(race):
    """copy the current tree, instrument it (lock wrappers module-wide, yield
    points in the anchored files), build the worker against the copy."""
    os.makedirs(BUILD, exist_ok=True)
    sync_gosum()
    instr = os.path.join(BUILD, "instrument")
    rc, o = run(["go", "build", "-o", instr, "."], cwd=os.path.join(VERIF, "instrument"))
    if rc != 0:
        die("build of instrumenter failed:\n" + o)
    scratch = tempfile.mkdtemp(prefix="verif-instr-")
    try:
        copy = os.path.join(scratch, "repo")
        shutil.copytree(REPO, copy, ignore=shutil.ignore_patterns(".git"))
        rc, o = run([instr, "-root", copy, "-sites", os.path.join(BUILD, "sites.tsv")])
        if rc != 0:
            die("instrumenter failed:\n" + o)
        # the copy needs to require verif/simrt
        with open(os.path.join(copy, "go.mod"), "a") as f:
            f.write("\nrequire verif/simrt v0.0.0\n")
        mod = open(os.path.join(HARNESS, "go.mod")).read()
        mod = mod.replace("replace github.com/0chain/common => /repo", "replace github.com/0chain/common => " + copy)
        modfile = os.path.join(scratch, "harness.mod")
        open(modfile, "w").write(mod)
        shutil.copy(os.path.join(HARNESS, "go.sum"), os.path.join(scratch, "harness.sum"))
        out = os.path.join(BUILD, "worker-sched-race" if race else "worker-sched")
        cmd = ["go", "build", "-modfile=" + modfile, "-tags", "simsched", "-o", out]
        if race:
            cmd.append("-race")
        cmd.append("./cmd/worker")
        rc, o = run(cmd, cwd=HARNESS)
        if rc != 0:
            die("build of instrumented worker failed:\n" + o)
        return out
    finally:
        shutil.rmtree(scratch, ignore_errors=True)

# ---------------------------------------------------------------- known findings

def load_known(pid):
    path = os.path.join(VERIF, "known_findings.json")
    if not os.path.exists(path):
        return []
    data = json.load(open(path))
    return [k for k in data.get("known", []) if k["property"] == pid]

# ---------------------------------------------------------------- running

def race_env():
    d = tempfile.mkdtemp(prefix="verif-race-")
    return d, dict(GORACE="log_path=%s/race halt_on_error=0 exitcode=0 history_size=2" % d, GOMEMLIMIT="3GiB")

def replay_once(binary, path, env_extra=None):
    env = goenv()
    env.update(env_extra or {})
    racedir = None
    if binary.endswith("-race"):
        racedir, renv = race_env()
        env.update(renv)
    try:
        return _replay_once(binary, path, env)
    finally:
        if racedir:
            shutil.rmtree(racedir, ignore_errors=True)

MODULE = "github.com/0chain/common"

def crash_signature(text):
    """A Go process that died of a fatal error or an unrecovered panic: returns (class, frame) when the first
    frame of the running goroutine outside the Go runtime / standard library belongs to the code under test,
    None when it does not (then the harness itself is at fault, or the text is no crash report)."""
    lines = text.splitlines()
    kind = None
    for i, l in enumerate(lines):
        if l.startswith("fatal error: "):
            kind = "fatal:" + l[len("fatal error: "):].strip()
        elif l.startswith("panic: "):
            kind = "panic:" + l[len("panic: "):].strip()[:120]
        if kind:
            break
    if not kind:
        return None
    start = None
    for j in range(i, len(lines)):
        if lines[j].startswith("goroutine ") and "[running" in lines[j]:
            start = j + 1
            break
    if start is None:
        return None
    for l in lines[start:]:
        if not l.strip():
            break
        if l.startswith("\t") or l.startswith("created by "):
            continue
        fn = l.split("(")[0].strip()
        first = fn.split("/")[0]
        if fn.startswith(MODULE):
            return kind, fn
        if fn.startswith("verif/") or fn.startswith("main."):
            return None
        if "." in first and "/" in fn and not fn.startswith(MODULE):
            # third-party module (zap, lru, ...): keep looking for who called it
            continue
        # runtime / standard library frame: keep looking
    return None

def _replay_once(binary, path, env):
    try:
        p = subprocess.run([binary, "-replay", path], env=env, stdout=subprocess.PIPE, stderr=subprocess.PIPE, text=True, timeout=600)
    except subprocess.TimeoutExpired:
        return 2, {}
    if p.returncode == 2:
        sig = crash_signature(p.stderr)
        if sig:
            # the process executing the script died inside the code under test
            return 1, {"violation": {"oracle": "crash", "class": sig[0], "detail": "process died in %s" % sig[1]}, "crashed": True}
    info = {}
    for line in p.stdout.splitlines():
        line = line.strip()
        if line.startswith("{"):
            try:
                info = json.loads(line)
            except Exception:
                pass
    return p.returncode, info

def fan_out(binary, pid, tier, seed, runs_total, budget_s, known_keys, replay_dir, digests=False, workers=NPROC, env_extra=None, extra_args=None):
    tmp = tempfile.mkdtemp(prefix="verif-run-")
    procs = []
    chunk = (runs_total + workers - 1) // workers
    env = goenv()
    env.setdefault("GOMAXPROCS", "2")
    env.update(env_extra or {})
    t0 = time.time()
    for w in range(workers):
        out = os.path.join(tmp, "w%d.json" % w)
        cmd = [binary, "-prop", pid, "-seed", str(seed), "-from", str(w * chunk), "-count", str(chunk),
               "-tier", tier, "-budget", "%ds" % budget_s, "-out", out, "-replaydir", replay_dir]
        if known_keys:
            cmd += ["-known", ",".join(known_keys)]
        if digests:
            cmd.append("-digests")
        cmd += ["-cur", os.path.join(tmp, "w%d.cur" % w)]
        cmd += (extra_args or [])
        log = open(os.path.join(tmp, "w%d.log" % w), "w")
        procs.append((subprocess.Popen(cmd, env=env, stdout=log, stderr=subprocess.STDOUT), out, log))
    results = []
    deadline = t0 + budget_s * 1.5 + 600
    for p, out, log in procs:
        try:
            rc = p.wait(timeout=max(1, deadline - time.time()))
        except subprocess.TimeoutExpired:
            p.kill()
            for q, _, _ in procs:
                q.kill()
            shutil.rmtree(tmp, ignore_errors=True)
            die("watchdog: worker did not finish within its budget (+ grace)")
        log.close()
        if rc != 0 or not os.path.exists(out):
            full = open(log.name).read()
            for q, _, _ in procs:
                q.kill()
            r = None
            try:
                idx = int(open(log.name[:-4] + ".cur").read().strip() or "-1")
            except Exception:
                idx = -1
            if rc == 2 and idx >= 0 and crash_signature(full):
                r = crash_triage(binary, pid, tier, seed, idx, known_keys, replay_dir, env, extra_args, tmp)
            shutil.rmtree(tmp, ignore_errors=True)
            if r is None:
                die("worker exited with %s:\n%s" % (rc, full[:1500] + "\n...\n" + full[-1500:]))
            return [r], time.time() - t0
        results.append(json.load(open(out)))
    shutil.rmtree(tmp, ignore_errors=True)
    return results, time.time() - t0

def crash_triage(binary, pid, tier, seed, idx, known_keys, replay_dir, env, extra_args, tmp):
    """A worker process died while executing run idx, inside the code under test. Execute that run alone:
    an ordinary violation is reported as such; if the process dies again the script itself is the replay file
    of a 'crash' violation. Returns a worker result, or None if the death does not reproduce."""
    out = os.path.join(tmp, "triage.json")
    base = [binary, "-prop", pid, "-seed", str(seed), "-from", str(idx), "-tier", tier, "-replaydir", replay_dir] + (extra_args or [])
    cmd = base + ["-count", "1", "-shrink", "0", "-budget", "600s", "-out", out]
    if known_keys:
        cmd += ["-known", ",".join(known_keys)]
    for attempt in range(3):
        if os.path.exists(out):
            os.remove(out)
        try:
            p = subprocess.run(cmd, env=env, stdout=subprocess.PIPE, stderr=subprocess.STDOUT, text=True, timeout=900)
        except subprocess.TimeoutExpired:
            return None
        if p.returncode == 0 and os.path.exists(out):
            r = json.load(open(out))
            if r.get("violations"):
                return r
            continue
        sig = crash_signature(p.stdout) if p.returncode == 2 else None
        if not sig:
            return None
        bname = "plain"
        if extra_args and "-build" in extra_args:
            bname = extra_args[extra_args.index("-build") + 1]
        tag = "" if bname == "plain" else "-" + bname
        path = os.path.join(replay_dir, "%s-%d-%d%s-crash.json" % (pid, seed, idx, tag))
        pe = subprocess.run(base + ["-emit", path, "-emitclass", sig[0]], env=env, stdout=subprocess.PIPE, stderr=subprocess.STDOUT, text=True, timeout=300)
        if pe.returncode != 0 or not os.path.exists(path):
            return None
        rp = json.load(open(path))
        return dict(property=pid, seed=seed, runs=1, nontrivial=1, stats={"violation.crash|" + sig[0]: 1}, script_digests=[], state_digests=[],
                    samples=[], recheck=0, recheck_diff=0, stopped_by="process-died", wall_s=0,
                    violations=[dict(run_index=idx, run_seed=0, violation=rp["violation"], replay_path=path, shrink_execs=0, orig_len=0, min_len=0, build=bname)])
    return None

def merge(results):
    m = dict(runs=0, nontrivial=0, stats={}, scripts=set(), states=set(), samples=[], violations=[], recheck=0, recheck_diff=0, stopped_by=set(), log_digests={})
    for r in results:
        m["runs"] += r["runs"]
        m["nontrivial"] += r["nontrivial"]
        for k, v in (r.get("stats") or {}).items():
            m["stats"][k] = m["stats"].get(k, 0) + v
        m["scripts"].update(r.get("script_digests") or [])
        m["states"].update(r.get("state_digests") or [])
        if len(m["samples"]) < 4:
            m["samples"] += (r.get("samples") or [])[:2]
        m["violations"] += (r.get("violations") or [])
        m["recheck"] += r.get("recheck", 0)
        m["recheck_diff"] += r.get("recheck_diff", 0)
        m["stopped_by"].add(r.get("stopped_by"))
        m["log_digests"].update(r.get("log_digests") or {})
    return m

def check(pid, tier, seed):
    cfg = PROPS.get(pid)
    if cfg is None:
        die("unknown property %s" % pid)
    t0 = time.time()
    binaries = []
    if cfg.get("sched"):
        binaries.append(("sched", build_instrumented(False)))
        if cfg.get("race"):
            binaries.append(("race", build_instrumented(True)))
    else:
        binaries.append(("plain", build_plain()))
    known = load_known(pid)
    known_keys = [k["oracle"] + "|" + k["class"] for k in known]
    replay_dir = os.environ.get("VERIF_REPLAY_DIR") or os.path.join(VERIF, "replays")
    os.makedirs(replay_dir, exist_ok=True)
    os.makedirs(os.path.join(VERIF, "evidence"), exist_ok=True)

    # 1. listed findings: replay each pinned witness
    known_lines = []
    for k in known:
        wpath = os.path.join(VERIF, k["witness"])
        b = dict(binaries).get(k.get("build", binaries[0][0]), binaries[0][1])
        rc, info = replay_once(b, wpath, cfg.get("env"))
        v = (info or {}).get("violation")
        if rc in (1, 3) and v and v["oracle"] == k["oracle"] and v["class"] == k["class"]:
            known_lines.append("KNOWN-FINDING: property=%s %s [%s|%s] witness=%s" % (pid, k["what"], k["oracle"], k["class"], k["witness"]))
        elif rc == 0:
            known_lines.append("NOTE: listed finding no longer reproduces (%s); consider moving it to 'fixed'" % k["witness"])
        else:
            # the witness fails differently: that is a new violation, reported below by exploration or here
            print("VIOLATION property=%s replay=%s" % (pid, wpath))
            print("  witness of a listed finding now fails differently: %s" % json.dumps(v))
            return 1
    for l in known_lines:
        print(l)

    # 2. exploration
    tcfg = cfg[tier]
    merged_all = None
    wall_runs = 0.0
    per_build = {}
    nondet = []
    for name, b in binaries:
        runs = tcfg["runs"] if name != "race" else tcfg.get("race_runs", tcfg["runs"] // 4)
        env_extra = dict(cfg.get("env") or {})
        racedir = None
        if name == "race":
            racedir, renv = race_env()
            env_extra.update(renv)
        try:
            results, wall = fan_out(b, pid, tier, seed, runs, tcfg["budget_s"], known_keys, replay_dir, env_extra=env_extra,
                                    extra_args=["-build", name] if cfg.get("sched") else None)
        finally:
            if racedir:
                shutil.rmtree(racedir, ignore_errors=True)
        wall_runs += wall
        m = merge(results)
        per_build[name] = dict(runs=m["runs"], wall_s=round(wall, 2))
        if m["recheck_diff"] > 0:
            nondet.append("%d of %d in-process re-executions (%s build) produced a different event log" % (m["recheck_diff"], m["recheck"], name))
        if merged_all is None:
            merged_all = m
        else:
            for k in ("runs", "nontrivial", "recheck"):
                merged_all[k] += m[k]
            for k, v in m["stats"].items():
                merged_all["stats"][k] = merged_all["stats"].get(k, 0) + v
            merged_all["scripts"] |= m["scripts"]
            merged_all["states"] |= m["states"]
            merged_all["violations"] += m["violations"]
            merged_all["stopped_by"] |= m["stopped_by"]
    m = merged_all

    # 3. confirm each violation by replaying it in a fresh process
    violations = []
    unconfirmed = []
    for v in m["violations"]:
        bname = v.get("build") or binaries[0][0]
        b = dict(binaries).get(bname, binaries[0][1])
        ok = False
        # normally the first replay reproduces; a violation that depends on something the simulator does
        # not own inside the code under test (the iteration order of a Go map deciding the order of
        # writes, say) may need a few executions
        for attempt in range(10):
            rc, info = replay_once(b, v["replay_path"], cfg.get("env"))
            vv = (info or {}).get("violation")
            if rc == 1 and vv and vv["oracle"] == v["violation"]["oracle"]:
                ok = True
                v["replay_attempts"] = attempt + 1
                break
        if not ok:
            # never reported as a violation; harness trouble (exit 2) unless other violations of this batch do replay
            unconfirmed.append("replay of %s did not reproduce the violation (rc=%s, got %s)" % (v["replay_path"], rc, json.dumps(info)))
            continue
        violations.append(v)
    if unconfirmed and not violations:
        die(unconfirmed[0] + (" (and %d more)" % (len(unconfirmed) - 1) if len(unconfirmed) > 1 else ""))
    for u in unconfirmed:
        # next to violations that did reproduce in fresh processes: the code under test is not a function of the script
        print("NOTE: not reported, " + u[:300])
    if nondet and not violations:
        # runs that are not a function of their script, and no violation that replays: the harness cannot be trusted here
        die("non-determinism: " + "; ".join(nondet))
    for n in nondet:
        # with violations that did reproduce in fresh processes the divergence is the code under test not being a
        # function of the script (Go map order deciding the order of its effects, say); reported next to them
        print("NOTE: " + n)

    wall = time.time() - t0
    known_hit = {k: v for k, v in m["stats"].items() if k.startswith("known.")}
    stats = m["stats"]
    faults = {k[6:]: v for k, v in stats.items() if k.startswith("fault.")}
    probes = {k[6:]: v for k, v in stats.items() if k.startswith("probe.")}
    ops = {k[3:]: v for k, v in stats.items() if k.startswith("op.")}
    other = {k: v for k, v in stats.items() if not (k.startswith("fault.") or k.startswith("probe.") or k.startswith("op.") or k.startswith("known.") or k.startswith("violation."))}
    ev = {
        "property_id": pid,
        "tier": tier,
        "seed": seed,
        "level": cfg["level"],
        "coverage": {
            "evaluations": m["runs"],
            "distinct_nontrivial": len(m["scripts"]),
            "rule": cfg["rule"],
            "samples": [json.loads(json.dumps(s)) for s in m["samples"][:4]],
            "exhaustive": False,
            "runs_per_hour": int(m["runs"] / max(wall_runs, 1e-6) * 3600),
            "nontrivial_runs": m["nontrivial"],
            "sim_steps": stats.get("sim.steps", sum(ops.values())),
            "simulated_time_note": "no clock or timer exists in the code paths of this property; simulated time is counted in operations / scheduler steps / storage operations (sim_steps)",
            "operations": ops,
            "faults_fired": faults,
            "probes": probes,
            "crash_points": stats.get("crash.points", 0),
            "distinct_states": len(m["states"]),
            "distinct_states_measure": cfg.get("state_measure", ""),
            "counters": other,
            "known_findings_hit": known_hit,
            "determinism_rechecks": m["recheck"],
            "builds": per_build,
            "stopped_by": sorted(x for x in m["stopped_by"] if x),
            "components": cfg["components"],
        },
        "assumptions": cfg["assumptions"],
        "wall_s": round(wall, 2),
        "violations": len(violations),
    }
    with open(os.path.join(VERIF, "evidence", pid + ".json"), "w") as f:
        json.dump(ev, f, indent=1, sort_keys=True)
    print("%s %s: %d runs (%d distinct non-trivial scripts, %d distinct states) in %.1fs; faults fired: %s; violations: %d; known findings hit: %d" % (
        pid, tier, m["runs"], len(m["scripts"]), len(m["states"]), wall, sum(faults.values()), len(violations), sum(known_hit.values())))
    for v in violations:
        print("VIOLATION property=%s replay=%s" % (pid, v["replay_path"]))
        print("  %s [%s] %s (script %d -> %d elements, run %d)" % (v["violation"]["oracle"], v["violation"]["class"], v["violation"]["detail"], v["orig_len"], v["min_len"], v["run_index"]))
    return 1 if violations else 0

# ---------------------------------------------------------------- commands

def cmd_setup():
    t0 = time.time()
    build_plain()
    if any(c.get("sched") for c in PROPS.values()):
        if os.path.exists(os.path.join(VERIF, "instrument", "main.go")):
            build_instrumented(False)
            build_instrumented(True)
    print("setup done in %.1fs" % (time.time() - t0))
    return 0

def cmd_replay(pid, path):
    cfg = PROPS.get(pid) or {}
    if cfg.get("sched"):
        data = json.load(open(path))
        race = (data.get("violation") or {}).get("oracle", "").startswith("race") or data.get("build") == "race"
        b = build_instrumented(race)
    else:
        b = build_plain()
    rc, info = replay_once(b, path, cfg.get("env"))
    print(json.dumps(info, indent=1))
    if rc in (1, 3):
        print("VIOLATION property=%s replay=%s" % (pid, path))
        return 1
    return rc

def cmd_selftest_determinism(ids):
    ids = ids or sorted(PROPS)
    bad = 0
    for pid in ids:
        cfg = PROPS[pid]
        bins = [build_instrumented(False)] if cfg.get("sched") else [build_plain()]
        if cfg.get("sched") and cfg.get("race"):
            bins.append(build_instrumented(True))
        for b in bins:
            digs = []
            # 1024 runs per process group: a first version with 64 missed a divergence that needed one particular
            # task operation (MergeDB from a store iterating in Go map order) in about 1 run in 400
            n = int(os.environ.get("VERIF_DET_RUNS", "1024"))
            for gmp in ("1", "4", "16"):
                for rep in range(4):
                    racedir, renv = race_env()
                    try:
                        res, _ = fan_out(b, pid, "quick", 12345, n, 600, [], tempfile.gettempdir(), digests=True, workers=4,
                                         env_extra=dict(cfg.get("env") or {}, GOMAXPROCS=gmp, **renv), extra_args=["-shrink", "0"] + (["-build", "x"] if cfg.get("sched") else []))
                    finally:
                        shutil.rmtree(racedir, ignore_errors=True)
                    digs.append(merge(res)["log_digests"])
            diff = [k for k in digs[0] if any(d.get(k) != digs[0][k] for d in digs[1:])]
            print("%s %s: %d runs x %d processes, %d differing digests" % (pid, os.path.basename(b), len(digs[0]), len(digs), len(diff)))
            if diff:
                bad += 1
                print("   differing run indices:", diff[:10])
    return 2 if bad else 0

def cmd_selftest_mutants(names):
    """apply every seeded change to a scratch copy of /repo and require the owning check to fail (exit 1)."""
    import glob
    bad = 0
    here = os.path.join(VERIF, "seeded")
    for d in sorted(glob.glob(os.path.join(here, "*"))):
        meta = os.path.join(d, "meta.json")
        if not os.path.isfile(meta) or (names and os.path.basename(d) not in names):
            continue
        mj = json.load(open(meta))
        pid = mj["breaks_property"]
        scratch = tempfile.mkdtemp(prefix="verif-mutant-")
        try:
            copy = os.path.join(scratch, "repo")
            shutil.copytree("/repo", copy, ignore=shutil.ignore_patterns(".git"))
            rc, o = run(["patch", "-p1", "-s", "-i", os.path.join(d, "patch.diff")], cwd=copy)
            if rc != 0:
                print("%s: patch does not apply any more:\n%s" % (os.path.basename(d), o))
                bad += 1
                continue
            ev = os.path.join(VERIF, "evidence", pid + ".json")
            keep = open(ev).read() if os.path.exists(ev) else None
            env = goenv()
            env.update(VERIF_REPO=copy, VERIF_REPLAY_DIR=os.path.join(scratch, "replays"))
            # a change that only a very expensive profile reaches (thorough tier) names the environment that forces
            # that profile, so that the self-test can still use the quick command
            env.update(mj.get("selftest_env") or {})
            os.makedirs(env["VERIF_REPLAY_DIR"])
            t0 = time.time()
            p = subprocess.run([os.path.join(VERIF, "check"), pid, "quick"], env=env, stdout=subprocess.PIPE, stderr=subprocess.STDOUT, text=True)
            if keep is not None:
                open(ev, "w").write(keep)
            first = [l for l in p.stdout.splitlines() if l.startswith("  ")][:1]
            verdict = "caught" if p.returncode == 1 else ("HARNESS-ERROR" if p.returncode == 2 else "MISSED")
            if verdict == "MISSED" and mj.get("expected") == "missed":
                verdict = "missed (recorded as not covered, see its meta.json)"
            print("%-55s %s by %s quick in %.0fs %s" % (os.path.basename(d), verdict, pid, time.time() - t0, (first[0].strip()[:110] if first else "")))
            if p.returncode != 1 and not (p.returncode == 0 and mj.get("expected") == "missed"):
                bad += 1
        finally:
            shutil.rmtree(scratch, ignore_errors=True)
    return 2 if bad else 0

def main(argv):
    if not argv:
        print(__doc__)
        return 2
    if argv[0] == "setup":
        return cmd_setup()
    if argv[0] == "selftest-determinism":
        return cmd_selftest_determinism(argv[1:])
    if argv[0] == "selftest-mutants":
        return cmd_selftest_mutants(argv[1:])
    pid = argv[0]
    if "--replay" in argv:
        return cmd_replay(pid, argv[argv.index("--replay") + 1])
    tier = argv[1] if len(argv) > 1 else os.environ.get("VERIF_TIER", "quick")
    if tier not in ("quick", "thorough"):
        die("tier must be quick or thorough")
    seed = int(os.environ.get("VERIF_SEED", "1") or "1")
    return check(pid, tier, seed)
