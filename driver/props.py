"""Per-property configuration of the checks (tiers, evidence texts)."""

MPT_COMPONENTS = {
    "real": ["core/util MerklePatriciaTrie, node codecs, ChangeCollector, MemoryNodeDB, LevelNodeDB, PNodeDB (unmodified sources of /repo's working tree)",
             "core/statecache (transaction/block caches used by the trie)", "core/encryption (sha3)"],
    "stub": ["github.com/linxGnu/grocksdb -> /verif/stubs/grocksdb (simulated RocksDB: ordered maps, atomic batches, write log, crash prefixes, I/O error and corruption injection)"],
}

ROCKS_ASSUMPTION = "the simulated RocksDB implements the documented contract the code relies on (atomic WriteBatch, ordered snapshot iteration, missing key = empty slice, WAL-prefix durability); behaviour specific to real RocksDB (compaction, iterator snapshots under concurrent writes) is out of reach"

WMPT_COMPONENTS = {
    "real": ["core/util/wmpt (weighted Merkle trie, node codecs, proofs, path export) - unmodified sources of /repo's working tree",
             "core/util/storage/kv PebbleAdapter + real pebble on pebble's crash-simulating vfs.StrictMem (minority of runs)", "core/encryption (sha3)"],
    "stub": ["storage.StorageAdapter -> /verif/harness/simkv (in-memory store with atomic batches, write log, sync points, crash prefixes, error and corruption injection) in the majority of runs"],
}

CACHE_COMPONENTS = {
    "real": ["core/statecache (StateCache, BlockCache, TransactionCache, QueryBlockCache) and github.com/hashicorp/golang-lru - unmodified sources of /repo's working tree", "core/util node types as cache values (C07)"],
    "stub": [],
}

def SCHED_COMPONENTS(what):
    return {"real": [what + " - instrumented copy of /repo's working tree (source-to-source: lock wrappers + yield points, no semantic change)", "Go runtime mutexes (TryLock) as the only lock state", "race detector (second build)"],
            "stub": ["Go scheduler for registered tasks -> /verif/simrt (seeded choice of the running task at every yield point / lock acquisition)"] + (MPT_COMPONENTS["stub"] if "core/util" in what else [])}

def mpt(level="exploration", **kw):
    d = dict(level=level, components=MPT_COMPONENTS)
    d.update(kw)
    return d

PROPS = {
    "C01": mpt(
        quick=dict(runs=64000, budget_s=90), thorough=dict(runs=4000000, budget_s=1200),
        rule="seeded histories (1-40 ops, rarely 100-400) of insert/overwrite/delete/insert-empty/over-size/lookup/iterate over per-run pools of even-length hex paths built to be prefixes/siblings/odd-split neighbours of one another (incl. the empty path), on memory, memory-over-memory, memory-over-persistent and persistent stores, own or shared node cache, single or changing trie version, optional child tries merged back; a quarter of the runs inject 1-3 I/O errors (node-store get/put/delete, simulated-disk read/write). After EVERY operation the full map model is compared (every key, neighbouring absent paths, Iterate). A run is non-trivial when it has >= 2 effective mutations and a structural probe fired (insert/delete at an interior path, delete of a present key, merge) or a fault fired; distinct = distinct script digests",
        state_measure="digest of (canonical trie shape of the model content, store kind)",
        assumptions=[ROCKS_ASSUMPTION,
                     "paths are even-length lowercase hex and values non-empty byte strings, as the property quantifies; a trie is not modified while a child trie is open on it (C03 covers that)",
                     "under an injected I/O error the relaxation is: the failed operation is not applied; later operations on that trie may fail with an error, lookups may fail with a store/node-not-found error, but never return a wrong value or 'not present' for a present key"],
    ),
    "C02": mpt(
        quick=dict(runs=64000, budget_s=90), thorough=dict(runs=4000000, budget_s=1200),
        rule="single-version histories (trie opened empty at version V; every operation, child trie and merge at V) as in C01 without faults; after EVERY mutation GetRoot() is compared with an independent implementation (sha3 only, written from the published format) applied to the canonical trie of the model content; at the end the same content is rebuilt in another order with delete/re-insert noise in a fresh trie (history independence, directly); a per-worker table root -> content reports two contents with one root (injectivity). Non-trivial: >= 2 effective mutations and a structural probe fired; distinct = distinct script digests",
        state_measure="digest of (canonical trie shape of the model content, store kind)",
        assumptions=[ROCKS_ASSUMPTION,
                     "'at a fixed trie version' is read as: every node of the trie was created at that version (across versions untouched subtrees legitimately keep older origins, so the root is not a function of content alone)",
                     "the independent hasher (harness/refmpt) is the specification of the published format: hash = sha3-256(LE64(origin) || body); leaf body prefix:path:value, branch body 16 x (hex(child)? ':') value, extension body path ':' rawChildKey; canonical shape as described in DESIGN.md section 5 (C02)",
                     "no fault kind applies to this property (fault-free configuration only); it rides on the same simulated histories as C01"],
    ),
    "C03": mpt(
        quick=dict(runs=32000, budget_s=90), thorough=dict(runs=2000000, budget_s=1200),
        rule="a parent trie (any store stack) with up to 5 open child tries (transaction states over LevelNodeDB(memory, parent store)), nested children, operations interleaved across parent, siblings and children by the seeded script, children opened before a sibling merges (stale), merge/discard decisions in any order. Before every operation every open trie is snapshotted (root, content, pending changes with encodings, dead list, own memory-level nodes); afterwards every trie other than the actor must be byte-identical, the actor's view must equal parent-content-at-open plus own changes, a merge must make parent root/content equal the child's view, a rejected (stale) merge and a discard must leave the parent's root, content AND pending changes exactly as they were, and a stale merge must be rejected. Half of the runs read through throw-away trie objects so that the harness does not warm the caches of the tries under test. Non-trivial: >= 2 effective mutations and a probe (merge, stale merge, interior insert/delete) fired",
        state_measure="digest of (canonical trie shape of the acting trie's model content, store kind)",
        assumptions=[ROCKS_ASSUMPTION,
                     "a child whose parent chain moved on after it was opened (stale) may fail reads with node-not-found (the parent drops nodes of its own level when it replaces them); it must never read a wrong value and its merge must be rejected",
                     "no injected fault applies; the 'schedule' is the seeded order of logical actors on one thread"],
    ),
    "C14": mpt(
        quick=dict(runs=48000, budget_s=90), thorough=dict(runs=3000000, budget_s=1200),
        rule="histories as in C01 (values biased to separator bytes ':', NUL, type-byte look-alikes 0x01/0x02/0x04/0x08 and random binary; child tries merged) with an invariant monitor after EVERY operation over every memory level, the persistent store through NodeDB.Iterate and the raw bytes of the simulated RocksDB default column family: key == GetHashBytes(node); CreateNode(Encode(n)) succeeds, re-encodes identically, re-hashes identically; Clone() hashes identically; raw stored bytes decode and re-encode identically; a walk from the trie's root through its own store re-computes every reachable node's hash from the node read back. Non-trivial as in C01; the evidence counts node kinds and child-set sizes seen",
        state_measure="digest of (canonical trie shape of the model content, store kind)",
        assumptions=[ROCKS_ASSUMPTION, "no injected fault applies (fault-free configuration); corrupted stored bytes are C15's subject"],
    ),
    "C17": mpt(
        quick=dict(runs=64000, budget_s=90), thorough=dict(runs=4000000, budget_s=1200),
        rule="build a trie by a seeded history (any store stack), then inject node loss: a set S of reachable non-root nodes (single node, whole subtree, scattered, mixtures) is deleted from the level that holds it; a FRESH trie object (empty cache) at the same root must report HasMissingNodes, GetAllMissingNodes must equal exactly the frontier {n in S reachable through nodes not in S} computed by the harness's own walk, lookups of keys whose path crosses S must fail (not 'not present', never a value), other keys read their value; then MergeDB from a donor memory store holding S (insertion order seeded) at the same or a different trie version must leave no missing node, the same root, the full content, and the donor byte-identical. Non-trivial: a node-loss fault fired and >= 2 mutations",
        state_measure="digest of (canonical trie shape of the model content, store kind)",
        assumptions=[ROCKS_ASSUMPTION, "node loss is injected below the NodeDB interface (memory map / simulated disk), the trie object under test is created afterwards with an empty cache (a warm cache legitimately still serves removed nodes)"],
    ),
    "C04": mpt(
        level="fault_enumeration",
        quick=dict(runs=40000, budget_s=90), thorough=dict(runs=1200000, budget_s=1500),
        rule="multi-round histories (1-5 rounds; each round a block state over LevelNodeDB(memory, prior) at version=round with 0-4 transaction children of 1-5 inserts/deletes each, merged or discarded, plus direct block updates; save lag 0-2 rounds; optional rebase onto the persistent store after saving), each round saved with RecordDeadNodes + SaveChanges(includeDeletes=false) to the real PNodeDB on the simulated RocksDB. After every save a fresh trie on the persistent store ALONE must read every saved round completely with its original content. Crash enumeration, exhaustive per history: for EVERY prefix of the save's write stream (process crash) plus two sampled power-loss prefixes inside earlier rounds' streams (not before the last Flush), the surviving disk is cloned, reopened with NewPNodeDB, every round whose save lies inside the prefix must read completely, and the interrupted round(s) are re-executed from the script and re-saved: same root, complete content. evaluations = histories; crash_points = crash states explored; non-trivial = history with >= 2 mutations and >= 1 crash point",
        state_measure="digest of the saved content per round",
        assumptions=[ROCKS_ASSUMPTION,
                     "write batches are atomic (the property says so); a process crash keeps every completed write, a power loss keeps a prefix of the write log not shorter than the last Flush",
                     "cancelling the context of SaveChanges is not explored here (sequential engine); abandoned saves are explored and judged under the task scheduler by C16"],
    ),
    "C05": mpt(
        level="fault_enumeration",
        quick=dict(runs=40000, budget_s=90), thorough=dict(runs=1200000, budget_s=1500),
        rule="multi-round histories as in C04 (2-8 rounds; 1 in 10 transactions is followed by a mid-round save that records the dead nodes of that moment, the round's final save records again; small value domain so that delete-then-recreate of byte-identical content is common inside a round across sibling transactions and across rounds; rare long runs of 40-80 rounds accumulate > 1000 dead nodes so that prune issues several delete batches) with PruneBelowVersion(v) for v from below the first to above the last round, interleaved with further rounds. Oracle 1: for every round r the recorded dead set D_r is disjoint from the node set reachable (harness walk over the persistent store) from the root of r and of every later round. Oracle 2: after prune(v), and for EVERY prefix of the prune's write stream (crash inside prune) and again after re-running prune on the crashed disk: every root saved at a version >= v reads completely with its original content from the persistent store alone; every deleted node key was recorded dead by a round < v; after a completed prune the records of rounds < v are gone. evaluations = histories; crash_points = crash states explored",
        state_measure="digest of the saved content per round",
        assumptions=[ROCKS_ASSUMPTION, "pruning runs against saved state (all executed rounds are saved before a prune); batches are atomic"],
    ),
    "C09": dict(
        level="exploration", components=WMPT_COMPONENTS,
        quick=dict(runs=48000, budget_s=90), thorough=dict(runs=3000000, budget_s=1200),
        rule="seeded histories (2-40 ops, rarely 100-300) of update / same-value rewrite / re-add of identical content / delete (both APIs) / Root() at any time / Commit at collapse level 0,1,2,3,64 + batch commit / DeleteNodes / reload from (root hash, weight) over pools of 32-byte keys built to share prefixes of 0..63 nibbles; weight = 1 + value[0] mod 7. Weight() is compared with the model after EVERY operation; after every commit Root() equals an independent hasher over the canonical trie of the content and GetBlockProof(b) names the owner of b for every b in 1..W (W<=128; else all interval boundaries +-1 and a sample) on the live trie AND on a trie reloaded from storage; W+1 is rejected. Storage: simulated StorageAdapter, 1/12 of the runs the real kv.PebbleAdapter on pebble's StrictMem FS. Non-trivial: >= 2 effective mutations and >= 1 commit",
        state_measure="digest of (canonical weighted-trie shape of the content, collapse level of the commit)",
        assumptions=["observations that perturb (GetBlockProof/GetPath on a dirty trie) are not used as implicit oracle probes: owner sweeps run on a just-committed trie and on a separately reloaded object; Root() is a history operation the generator places anywhere",
                     "the simulated StorageAdapter models atomic batches and ordered durability; no fault kind is needed for this property (fault-free configuration)"],
    ),
    "C11": dict(
        level="fault_enumeration", components=WMPT_COMPONENTS,
        quick=dict(runs=12000, budget_s=120), thorough=dict(runs=600000, budget_s=1500),
        rule="histories as in C09 (a third of the runs with a 3-value domain so that identical nodes are re-created), plus power-loss/crash as a generated operation (simulated store: any prefix of the write log not shorter than the last synced batch survives; pebble: ResetToSyncedState) after which the run continues on the surviving state. After every batch commit and after every DeleteNodes pass a trie reopened from just (root hash, weight) must be observationally identical to what the LIVE trie showed right after its commit (weight; for every probed block: owner, value, proof verifying to the root) and a reachability walk over raw storage must find every node. Crash enumeration, exhaustive per history: for EVERY prefix of the storage write log (= every boundary between two storage operations; batches atomic) the last commit whose batch survived must be fully resolvable and identical on a clone of that prefix. evaluations = histories; crash_points = crash states explored",
        state_measure="digest of (canonical weighted-trie shape of the content, collapse level of the commit)",
        assumptions=["batches are atomic; a synced batch makes every earlier write durable; an empty batch syncs nothing",
                     "the comparison is live-vs-reopened (as the property says), not model-vs-reopened, so a weight defect (C09) raises no alarm here"],
    ),
    "C13": dict(
        level="exploration", components=WMPT_COMPONENTS,
        quick=dict(runs=32000, budget_s=90), thorough=dict(runs=2000000, budget_s=1200),
        rule="histories as in C09 with checkpoints: commit A, SaveRoot on the clean trie, a batch of changes (new keys, changed values, same-value rewrites, delete-and-re-add of identical content, deletes), exactly one commit B at any collapse level, optionally one DeleteNodes pass, then Rollback() or RollbackTrie(NewHashNode(rootA, weightA)); several checkpoint/rollback cycles per run, and the run continues after a rollback (further commits and GC passes). Oracle: Root()/Weight() equal A's; every storage key reachable from A when the checkpoint was taken is still present; a trie reopened from A shows exactly what the live trie showed right after A's commit (owner, value, verifying proof for every probed block); no storage key written only by commit B (present after B's batch, absent before it) is left. Non-trivial: >= 2 mutations and a commit",
        state_measure="digest of (canonical weighted-trie shape of the content, collapse level of the commit)",
        assumptions=["the rollback window is what the property states: one committed batch of changes after the checkpoint, at most one GC pass in between; rollbacks of uncommitted-only changes are outside the quantifier and are not generated",
                     "simulated StorageAdapter only (storage key accounting needs the raw key set)"],
    ),
    "C10": dict(
        level="exploration", components=WMPT_COMPONENTS,
        quick=dict(runs=48000, budget_s=90), thorough=dict(runs=3000000, budget_s=1200),
        rule="a prover trie is built by a seeded history (in memory, committed/collapsed, or reloaded from storage; not updated afterwards; unique values). Honest half: for EVERY probed block (all b in 1..W for W<=128) the proof verifies on a fresh verifier and yields the trusted root (independent hasher), the owner's key and the owner's value. Adversarial half: the proof for one block travels over a channel as a list of node blobs; 0-3 structured tamperings drawn from a per-run random subset (swarm) of: re-weight two children of a branch keeping the sum, move all weight to a sibling (zero), swap sibling hashes, swap sibling entries, substitute a node by one from a proof for another block or from another trie, drop / duplicate / reorder / truncate elements, bit flips, change an embedded short-node or value weight, ask the verifier about another block. Oracle: if verification returns no error AND the returned hash equals the trusted root then the returned value must be the value of the true owner of the block the verifier was asked about. Non-trivial: >= 2 mutations and a proof made; faults_fired counts tamperings that actually changed the message",
        state_measure="digest of (canonical weighted-trie shape of the content, collapse level of the commit)",
        assumptions=["the trusted root is the root of the honest content (independent hasher = live Root(), checked); values are unique per key so a foreign value is attributable",
                     "the adversary is structural (CBOR node level) plus bit flips; it does not search for hash collisions"],
    ),
    "C12": dict(
        level="exploration", components=WMPT_COMPONENTS,
        quick=dict(runs=48000, budget_s=90), thorough=dict(runs=3000000, budget_s=1200),
        rule="a source trie of any shape (empty, single entry, shared-prefix root, branch root; 1-32 keys sharing prefixes of 0..63 nibbles) in memory (hashes computed first, as the package's users do), committed at collapse level 0/1/2/3/64, garbage collected or reloaded; a requested key set of size 0,1,2,3,5,9,10,11,12,16,24 (both sides of the >10 parallel-collection threshold; present and absent keys); GetPath -> channel (no faults) -> Deserialize into a trie without storage. Oracle: Deserialize succeeds; Root()/Weight() of the partial trie equal the source's; then up to 10 mirrored updates/deletes of requested keys are applied to both and after each one both return the same error-ness and Root()/Weight() stay equal (the partial trie must never need storage for a requested path). Non-trivial: >= 2 mutations and a commit or export",
        state_measure="digest of (canonical weighted-trie shape of the content, collapse level of the commit)",
        assumptions=["an in-memory source with uncommitted changes is hashed (GetRoot().CalcHash()) before GetPath, which is the protocol of the package's own tests; exporting from a never-hashed trie is outside the property",
                     "no fault kind applies (fault-free configuration); malformed exports are C15's subject"],
    ),
    "C06": dict(
        level="exploration", components=CACHE_COMPONENTS,
        quick=dict(runs=480000, budget_s=90), thorough=dict(runs=24000000, budget_s=1200),
        rule="one real StateCache; a generated block tree (forks, gaps = unknown previous hash, chains, blocks renamed with SetBlockHash before commit, blocks committed twice, children committed before parents); per block a real BlockCache, several TransactionCaches, QueryBlockCaches at arbitrary (old, sibling, tip, unknown) blocks and transaction caches over query caches; operations set/remove/get on transaction caches, Set/Get on block caches, commits of transactions and blocks in any order, StateCache.Get / StateCache.Remove. Oracle (soundness; a miss is always allowed): every HIT must carry exactly the value most recently written on that context's own chain (own uncommitted map -> block's pre-commit map -> committed blocks along previous-hash links; the walk stops at the first uncommitted or unknown block) and that entry must be a value, not a tombstone. 1 in 40 runs are long chains (230-350 blocks, some 2050-2250) that exceed the real capacities (200 versions per key, 2000 ancestor links) with reads at an old block that refresh its recency. Non-trivial: >= 2 writes and >= 1 hit",
        state_measure="digest of (block-tree shape with commit flags, per-block committed key/tombstone sets) at the end of the run",
        assumptions=["a block cache and its transaction caches are not used after the block committed (the block cache is discarded then)",
                     "a capacity replica of the LRU maps (documented semantics) is used only to tell the listed eviction finding from any other wrong value"],
    ),
    "C07": dict(
        level="exploration", components=CACHE_COMPONENTS,
        quick=dict(runs=800000, budget_s=90), thorough=dict(runs=40000000, budget_s=1200),
        rule="block trees and operations as in C06 (short runs: no capacity is reached, decided from the model). Visibility: a write/removal in a transaction cache is invisible to its block cache and to sibling transactions until the transaction commits; a block's writes are invisible to StateCache.Get, query caches and other blocks until the block commits. Completeness: a lookup in a context whose chain is fully committed up to a write MUST hit with that value (own uncommitted writes always). Copy oracle: values are mutable (byte values, and real util.LeafNode / FullNode / ExtensionNode, which implement statecache.Value); the harness scribbles on every value right after handing it in and on every value it receives (bytes, paths, child keys, SetValue, origin); all later reads through every layer must still equal the model. Non-trivial: >= 2 writes and >= 1 hit",
        state_measure="digest of (block-tree shape with commit flags, per-block committed key/tombstone sets) at the end of the run",
        assumptions=["'unless evicted for capacity' is decided from the model: completeness is demanded only while fewer than 200 versions of the key and fewer than 2000 blocks were added"],
    ),
    "C08": dict(
        level="exploration", components=SCHED_COMPONENTS("core/statecache"), sched=True, race=True,
        quick=dict(runs=96000, race_runs=24000, budget_s=60), thorough=dict(runs=6000000, race_runs=1500000, budget_s=1200),
        rule="an instrumented copy of the current tree (yield point before every statement of package statecache that calls or touches shared state, i.e. at every individual LRU/map access of StateCache.Get and commit; every Lock/Unlock routed through the scheduler). Setup (sequential): a block tree of 3-7 blocks with forks, each block writing at most one key (so no map-iteration order is observable), a committed prefix, optional warm-up reads. Scheduled phase: 2-5 tasks - committers (each its own blocks, oldest first or any order, the same block by two tasks) and readers (StateCache.Get, QueryBlockCache.Get, BlockCache.Get of bystander blocks at ancestors, the committing blocks and descendants) - under a seeded scheduler (uniform random walk, PCT with <= 3 priority changes, run-until-blocked with forced pre-emptions). Oracles: (a) every hit equals the value the block tree determines for (key, block): the first block on the chain that writes the key, committed yet or not (timing independent; only hit-or-miss may vary); (b) a lookup invoked after the commits of every block on its chain down to the writer had returned (event sequence stamps) must hit; (c) the same seeded schedules on a -race build whose task hand-off is invisible to the race detector: any report with both accesses inside the module is a violation; (d) no panic, no deadlock among instrumented locks. Non-trivial: >= 1 context switch and >= 1 commit in the scheduled phase; distinct = distinct script digests",
        state_measure="distinct interleavings: digest of the task chosen at every scheduler decision with more than one enabled task (+ total steps)",
        assumptions=["library code outside the module (LRU internals, zap) executes atomically within a scheduler step; map iteration order inside the code under test is not controlled, so scheduled blocks write at most one key",
                     "transaction-cache commits concurrent with their block's commit are outside the property's quantifier and are not generated (a plain vs. atomic counter update there is reported by the race detector; noted in DESIGN.md)"],
    ),
    "C16": dict(
        level="exploration", components=SCHED_COMPONENTS("core/util (trie, node stores, change collector)"), sched=True, race=True,
        quick=dict(runs=10000, race_runs=3500, budget_s=50), thorough=dict(runs=800000, race_runs=250000, budget_s=1500),
        rule="an instrumented copy of the current tree (yield points in merkle_patricia_trie.go, mpt_nodedb.go, mpt_node_change.go; every Lock/RLock/Unlock module-wide routed through the scheduler, the real mutexes stay the only lock state). Setup: a trie on a memory / layered / memory-over-persistent store with 0-4 entries over a pool of 2-4 paths (prefixes of one another); in 1/5 of the runs reachable nodes are then removed from the store (node loss) and the run continues on a fresh trie object. Scheduled phase: 2-4 tasks with 2-6 operations each on the SAME trie: Insert (unique values), Delete, GetNodeValueRaw, Iterate, GetChanges/GetDeletes/GetChangeCount, GetMissingNodeKeys, HasMissingNodes, SaveChanges to a PNodeDB, GetRoot. Oracles: (a) the history (invoke/return stamped with the scheduler's event sequence) plus a final read-all is checked with porcupine against a sequential map model (Illegal = violation, Unknown = inconclusive, counted, never reported); (b) the final root equals the independent root of the final content; (c) -race build under the same seeded schedules: any report inside the module is a violation; (d) no panic, no deadlock; lossy runs: reads never return a wrong value. Non-trivial: >= 1 context switch",
        state_measure="distinct interleavings: digest of the task chosen at every scheduler decision with more than one enabled task (+ total steps)",
        assumptions=[ROCKS_ASSUMPTION, "goroutines the code spawns in the anchored files (SaveChanges' writer) are scheduled tasks of their own (simrt.Go), blocking selects there are polling loops in which the case looked at first is a scheduler choice (simrt.Pick); goroutines spawned elsewhere in the module run unscheduled while their parent waits", "writer preference of sync.RWMutex is not modelled (more schedules than the runtime allows, none that a correct program may exclude)"],
    ),
    "C20": dict(
        level="exploration", components=SCHED_COMPONENTS("core/logging MemLogger/MemCore + real zap"), sched=True, race=True, env={"GOMAXPROCS": "1"},
        quick=dict(runs=12000, race_runs=4000, budget_s=60), thorough=dict(runs=700000, race_runs=200000, budget_s=1500),
        rule="real MemLogger/MemCore with real zap loggers. Sequential histories (a fifth of the runs): derive loggers (core.With and zap Logger.With, at different times, nested) and write through any of them, totals below, at (1023/1024/1025) and far above the capacity (up to 3000 per burst); after checks and at the end GetLogs must equal the last min(n,1024) written ids newest first and WriteLogs must list exactly those ids in that order (entries are copied out immediately: the buffer reuses entry objects). Scheduled histories (instrumented copy, yield points in inmemory_logger.go): a sequential prefix, then 2-4 tasks writing through root and derived loggers, deriving further loggers, taking GetLogs snapshots and calling WriteLogs into private buffers while the others write and derive (every line of such a dump must be one entry with its own id as message and as field, and the listed ids obey the snapshot rules); oracle after the join: no duplicate, exactly min(n,1024) entries, per task the retained entries are a suffix of its writes in reverse program order, pre-task entries are older than all task entries and only retained if no task entry was dropped (= the most recent entries of some linearisation); snapshots: no duplicate, per-task order; -race build under the same schedules: any report with both accesses inside the module is a violation. Non-trivial: >= 2 writes and a derived logger / a context switch",
        state_measure="distinct interleavings (scheduled runs) / (number of loggers, wrapped?, total mod 7) (sequential runs)",
        assumptions=["the scheduled workers run with GOMAXPROCS=1 (only one task runs at a time anyway): zap's encoder buffers come from a sync.Pool whose reuse pattern is per-P, and with one P a use of a buffer after it was returned to the pool replays; a race report whose only in-module frame is the harness's own read of an entry is not counted"],
    ),
    "C15": dict(
        level="exploration", components={"real": ["core/util node codecs (CreateNode, Leaf/Full/Extension Decode, OriginTracker), PNodeDB read paths, dead-node record decoding via PruneBelowVersion", "core/util/wmpt DeserializeNode, Deserialize (path export), VerifyBlockProof, read paths of a reloaded trie"], "stub": MPT_COMPONENTS["stub"] + WMPT_COMPONENTS["stub"]},
        quick=dict(runs=160000, budget_s=90), thorough=dict(runs=10000000, budget_s=1200),
        rule="real encodings are produced by the real code (200 seeded base histories: state-trie nodes written to the simulated RocksDB, a dead-node record, weighted-trie nodes in the simulated store, a path export, block proofs); one of them is corrupted by 1-3 operators and consumed through a real read path: (mptnode) CreateNode directly; (mptreader) CreateNode from a faulty io.Reader (short reads, EOF or error after any byte); (mptstore) the simulated disk returns the corrupted bytes for one key while a trie reads every path, iterates, checks missing nodes and PNodeDB iterates; (deadrec) PruneBelowVersion over a corrupted dead-node record; (wmptnode) DeserializeNode; (wmptstore) the store returns corrupted bytes while a reloaded trie serves proofs for every block and a path export; (export) Deserialize; (proof) VerifyBlockProof. Operators: truncation (torn write; 1 in 25 runs of the direct targets tears the encoding at EVERY offset), bit flip, byte set, separator removal, type-byte change (incl. no/several type bits), splice of two real encodings, insertion, region duplication; CBOR-structure level: 17/18/32/300 children, child blobs of 41/50/71/73/39 bytes, short-node value blobs of 0/1/39/41/80 bytes, huge weights, several variants in one node, nil fields, dropped/duplicated/nil/swapped/truncated list elements. Oracle: no panic inside a decoder (recovered with the stack; for directly decoded nodes also none while re-encoding what was accepted: Encode/GetHashBytes/Clone, Serialize/CalcHash/Copy, Root/Weight), return within 10 s. Non-trivial: the bytes actually changed or a reader fault was armed",
        state_measure="(target, multiset of operator kinds)",
        assumptions=["panics of trie read paths that happen outside the decoders after a meaningless-but-decodable node was accepted are counted (outside-scope) and not reported: the property speaks about the decoders and about re-encoding what they accept",
                     "the 10 s bound is a hang detector (the only wall-clock oracle), three orders of magnitude above normal"],
    ),
}

# What the mutant waves added (DESIGN.md section 16.5); appended to the rules so that evidence files say what ran.
TREE_EXTRA = ("Store kinds: memory, level(mem,mem), level(mem,persistent), persistent, and level(persistent,persistent) = what a rebase "
              "after a save produces. Path lengths up to 256 hex characters. 1 in 700 runs stores values 0-700 bytes (biased to the last dozen) "
              "below util.MPTMaxAllowableNodeSize, the largest value Insert accepts. Content is read through the trie under test, through "
              "throw-away trie objects on the same store (half of the runs) or through util.CloneMPT (1 in 8); in a third of the runs the reads "
              "alternate between Iterate over value nodes, Iterate over all node types and IterateFrom(root). A third of the merges are tried again at once when they are rejected. C14: a third of the runs change the trie version "
              "between operations. C17: 1 in 4 repairs use as donor the level store of a peer that has moved on (lower level = complete state, a trie of the next "
              "version has rewritten 1-3 keys over it).")
ROUND_EXTRA = ("1 in 10 transactions is followed by a mid-round SaveChanges of the block's trie (1 in 6 histories inject one write error, nothing applied and no crash, into half of their saves: the error must be reported and the save is repeated with the same objects; 1 in 20 histories store values that are byte for byte the hash preimage of a node of the current state; C04: the root saved then must still be complete on the store after the round's final save; C05: the dead nodes of that moment are recorded, and recorded again by the final save). 1 in 120 runs has one round that inserts 200-500 keys (more nodes than the 256-node batch size); 1 in 15 runs uses sparse round "
               "numbers whose low bits repeat (jumps of 2^16 / 2^32 / 2^48); 1 in 10 rounds contains a 'sync': the complete state of the previous "
               "round is merged into the block's trie from a separate store (MergeDB back to the previous root).")
CACHE_EXTRA = ("1 in 8 runs uses names that are ambiguous when concatenated (keys k, kq, kqq; block hashes z0, qz0, qqz0, qqqz0, z1, ...). Value kinds: mutable byte values, trie nodes (C07), and the package's immutable statecache.String (1 in 5 runs); 1 in 8 runs draws "
               "values from a domain of three so that blocks rewrite their parent's value. Profiles besides the short block trees: deep chains "
               "(22-190 blocks, a key changes about once in 8-48 blocks, values and tombstones, lookups repeated through state / query / block / "
               "transaction caches; 1 in 25 runs), big blocks (300-100000 keys in one block on top of a parent, then first-touch writes and removals; "
               "1 in 250 runs; below the key capacity 100*1024 because beyond it which keys an overfull commit evicts follows Go map order inside the "
               "code under test).")
ADDENDA = {
    "C01": TREE_EXTRA, "C02": TREE_EXTRA, "C03": TREE_EXTRA, "C14": TREE_EXTRA, "C17": TREE_EXTRA,
    "C04": ROUND_EXTRA, "C05": ROUND_EXTRA,
    "C06": CACHE_EXTRA + " Long chains (1 in 40 runs) write through block caches and transactions (set, remove, set-and-remove) and read at the tip as well.",
    "C07": CACHE_EXTRA,
    "C08": "1 in 9 runs starts from a committed chain of 200-215 blocks that all wrote k0 (the 200-entry per-key version table is full), with the concurrent lookups near the tip; half of those runs are about k0 only. The sequential pre-phase commits a prefix of the new blocks or (1 in 3 runs, 1 in 2 hot-key runs) any subset in any order, so that the concurrent phase starts with committed children of uncommitted parents.",
    "C09": "Value lengths 1-8 bytes, and 31-1000 bytes with the distinguishing bytes at the end (1 in 6 values); 1 in 120 runs commits 150-450 keys at once. 1 in 8 runs of C09/C11/C13 uses a twin-subtree key pool (2-3 prefixes x 2-3 tails, values a function of the tail: byte-identical subtrees at different positions).",
    "C10": "1 in 6 runs a key owner stores a value that embeds the hash of a value node of their choosing (as its last 32 bytes, or as the first of sixteen 32-byte slots); tamperings additionally: 'retype' (an inner node presented as a value node) and 'leafas' (a leaf presented as a short node or branch, with the chosen node appended below the end of the key path).",
    "C11": "Half of the non-collapsing (level 64) commits hold their batch back: it is written only after the next Commit() has run, in order (Commit hands the batch to the caller). 1 in 120 runs commits 150-450 keys at once. 1 in 8 runs of C09/C11/C13 uses a twin-subtree key pool (2-3 prefixes x 2-3 tails, values a function of the tail: byte-identical subtrees at different positions).",
    "C12": "1 in 120 runs has 150-450 keys; 1 in 3000 runs exports every key of a trie with 56000-70000 keys (more than 2^17 nodes).",
    "C13": "The harness executes every history (further commits and collector passes under an abandoned checkpoint included) and only JUDGES a rollback inside the quantifier's window (exactly one commit, at most one collector pass since the latest SaveRoot). Half of the runs are round-structured: optional SaveRoot, a batch (random changes / return to exactly the checkpoint's content / delete everything / empty), commit, 0-2 collector passes, optional rollback. 1 in 120 runs commits 150-450 keys at once. 1 in 8 runs of C09/C11/C13 uses a twin-subtree key pool (2-3 prefixes x 2-3 tails, values a function of the tail: byte-identical subtrees at different positions). 1 in 1000 runs steers a commit to an exact number of new storage keys (128..2048) by repeating checkpoint / commit of n new keys / rollback with n adjusted by feedback; every rollback on the way is judged.",
    "C15": "Message-level operators additionally: pairs.relink (a subtree replaced by a nil node / hash reference / value / empty branch and the hash its parent claims for that slot rewritten to match), pairs.collapse (a whole subtree of a pre-order export replaced by a hash reference claiming the same hash and weight) and pairs.rekind (a node replaced by a node of another kind claiming the same hash).",
    "C16": "Task operations additionally: a child trie opened on the shared trie, one insert, MergeMPTChanges (atomic put or rejected); MergeDB of a separately built trie (porcupine 'setall'); Validate/GetNodeDB/GetVersion; SaveChanges with an already cancelled context: it returns at once and the task goes on while the abandoned writer goroutine, a scheduled task of its own, still has to write. 1 in 7 runs is a judged-saves run (writes, lookups, saves and abandoned saves only): every save writes into a store of its own, and after the run the nodes found there must make up the complete trie of a root that was current at some moment between that save's call and its return. Half of the judged-saves runs reopen the trie object on the prepared state first (so that the delete list fills) and save into private copies of that state, half of those saves with deletes; a quarter of the plain saves go to a store that refuses the batch write (injected I/O error): a save that then reports success is judged like any other.",
}
for _k, _t in ADDENDA.items():
    PROPS[_k]["rule"] = PROPS[_k]["rule"] + " " + _t
