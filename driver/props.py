"""Per-property configuration of the checks (tiers, evidence texts)."""

MPT_COMPONENTS = {
    "real": ["core/util MerklePatriciaTrie, node codecs, ChangeCollector, MemoryNodeDB, LevelNodeDB, PNodeDB (unmodified sources of /repo's working tree)",
             "core/statecache (transaction/block caches used by the trie)", "core/encryption (sha3)"],
    "stub": ["github.com/linxGnu/grocksdb -> /verif/stubs/grocksdb (simulated RocksDB: ordered maps, atomic batches, write log, crash prefixes, I/O error and corruption injection)"],
}

ROCKS_ASSUMPTION = "the simulated RocksDB implements the documented contract the code relies on (atomic WriteBatch, ordered snapshot iteration, missing key = empty slice, WAL-prefix durability); behaviour specific to real RocksDB (compaction, iterator snapshots under concurrent writes) is out of reach"

def mpt(level="exploration", **kw):
    d = dict(level=level, components=MPT_COMPONENTS)
    d.update(kw)
    return d

PROPS = {
    "C01": mpt(
        quick=dict(runs=64000, budget_s=90), thorough=dict(runs=4000000, budget_s=1200),
        rule="seeded histories (1-40 ops, rarely 100-400) of insert/overwrite/delete/insert-empty/over-size/lookup/iterate over per-run pools of even-length hex paths built to be prefixes/siblings/odd-split neighbours of one another (incl. the empty path), on memory, memory-over-memory, memory-over-persistent and persistent stores, own or shared node cache, single or changing trie version, optional child tries merged back; a quarter of the runs inject 1-3 I/O errors (node-store get/put/delete, simulated-disk read/write). After EVERY operation the full map model is compared (every key, neighbouring absent paths, Iterate). A run is non-trivial when it has >= 2 effective mutations and a structural probe fired (insert/delete at an interior path, delete of a present key, merge) or a fault fired; distinct = distinct script digests",
        state_measure="digest of (canonical trie shape of the model content, store kind)",
        assumptions=[ROCKS_ASSUMPTION,
                     "paths are even-length lowercase hex and values non-empty byte strings, as the property quantifies; a trie is not modified while a child trie is open on it (C03 covers that)",
                     "under an injected I/O error the relaxation is: the failed operation is not applied; later operations on that trie may fail with an error, lookups may fail with a store/node-not-found error, but never return a wrong value or 'not present' for a present key"],
    ),
}
