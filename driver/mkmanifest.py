#!/usr/bin/env python3
"""Regenerates /verif/MANIFEST.json from driver/props.py and driver/manifest_texts.py."""
import json, os, sys
sys.path.insert(0, os.path.dirname(os.path.abspath(__file__)))
from props import PROPS
from manifest_texts import TEXTS, NOT_APPLICABLE, PENDING

VERIF = os.path.dirname(os.path.dirname(os.path.abspath(__file__)))
ALL = ["C%02d" % i for i in range(1, 21)]

checks = []
for pid in ALL:
    if pid not in PROPS or pid not in TEXTS:
        continue
    t = TEXTS[pid]
    checks.append({
        "property_id": pid,
        "quick_cmd": "./check %s quick" % pid,
        "thorough_cmd": "./check %s thorough" % pid,
        "evidence_file": "/verif/evidence/%s.json" % pid,
        "replay_cmd_template": "./check %s --replay {path}" % pid,
        "engine": t["engine"],
        "level_claimed": {"category": PROPS[pid]["level"], "text": t["level_text"], "design_ref": t["design_ref"]},
        "level_note": t["level_note"],
        "technique": t["technique"],
    })
na = []
for pid in ALL:
    if pid in PROPS and pid in TEXTS:
        continue
    if pid in NOT_APPLICABLE:
        na.append({"property_id": pid, "reason": NOT_APPLICABLE[pid]})
    else:
        na.append({"property_id": pid, "reason": PENDING})

manifest = {
    "version": 1,
    "setup_cmd": "./check setup",
    "hooks": {
        "guard": "verif",
        "enable": "no hook is compiled into /repo: the concurrency checks copy the current working tree to a scratch directory at check time and instrument the copy (go/ast rewriter in /verif/instrument: lock wrappers module-wide, yield points in the anchored files); the build tag 'verif' is reserved and unused",
        "baseline_off_cmd": "cd /repo && GOFLAGS=-mod=mod GOPROXY=off GOSUMDB=off go test -json -vet=off -count=1 -timeout 25m ./...",
        "source_commits": [],
        "add_only": True,
    },
    "engines": [
        {"name": "mptsim", "path": "/verif/harness/mptsim", "serves_properties": [p for p in ["C01", "C02", "C03", "C04", "C05", "C14", "C17"] if p in PROPS],
         "kind_free_text": "seeded histories over the real state trie on memory/layered/persistent (simulated RocksDB) stores, reference map + independent canonical hasher, crash-prefix enumeration"},
        {"name": "wmptsim", "path": "/verif/harness/wmptsim", "serves_properties": [p for p in ["C09", "C10", "C11", "C12", "C13"] if p in PROPS],
         "kind_free_text": "seeded histories over the real weighted trie on a simulated StorageAdapter / real pebble on StrictMem, sorted-map reference + independent hasher, crash-prefix enumeration, tampering channel for proofs"},
        {"name": "cachesim", "path": "/verif/harness/cachesim", "serves_properties": [p for p in ["C06", "C07", "C08"] if p in PROPS],
         "kind_free_text": "seeded block trees over the real statecache package against a block-tree reference model; C08 runs the same model under a seeded task scheduler on an instrumented copy"},
        {"name": "corrupt", "path": "/verif/harness/corrupt", "serves_properties": [p for p in ["C15"] if p in PROPS],
         "kind_free_text": "corruption faults on stored values, peer messages and readers, driven through the real decoders and read paths"},
        {"name": "logsim", "path": "/verif/harness/logsim", "serves_properties": [p for p in ["C20"] if p in PROPS],
         "kind_free_text": "ring-buffer model of the in-memory logger, sequential histories and scheduled writers/readers"},
        {"name": "simrt", "path": "/verif/simrt", "serves_properties": [p for p in ["C08", "C16", "C20"] if p in PROPS],
         "kind_free_text": "seeded cooperative task scheduler with race-transparent hand-off; /verif/instrument rewrites a scratch copy of /repo (lock wrappers module-wide, yield points in anchored files)"},
    ],
    "checks": checks,
    "not_applicable": na,
    "notes": "Technique: deterministic simulation with fault injection (see DESIGN.md). One integer (VERIF_SEED) decides every generated operation, schedule decision and fault; violations are minimised and written as replay files under /verif/replays and re-executed in a fresh process before being reported.",
}
with open(os.path.join(VERIF, "MANIFEST.json"), "w") as f:
    json.dump(manifest, f, indent=1)
print("MANIFEST.json: %d checks, %d not claimed" % (len(checks), len(na)))
