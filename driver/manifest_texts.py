"""Texts for MANIFEST.json (level claims, techniques)."""

PENDING = "not claimed yet: the check for this property is still being built (see DESIGN.md section 15); no verdict is given"

NOT_APPLICABLE = {
    "C18": "pure, stateless arithmetic on one or two machine words: there is no schedule, clock, storage, peer, fault or history for a simulator to control (DESIGN.md section 10); exhaustive boundary enumeration or SMT is the fitting method, which is outside this task's technique",
    "C19": "ComputeTree/GetPathByIndex/VerifyMerklePath/SetTree are pure functions of (leaf list, index) on an in-memory array built once; the quantifier is over inputs only, so seeded search over schedules and faults has nothing to decide (DESIGN.md section 10)",
}

SIM = "deterministic simulation: seeded operation histories against an executable reference model"

TEXTS = {
    "C01": dict(
        engine="mptsim",
        design_ref="DESIGN.md section 5 (C01)",
        technique=SIM + " (map model compared after every operation), with injected node-store / disk I/O errors in a separate configuration; ddmin-minimised replay files",
        level_text="Exploration: tens of thousands (quick) to millions (thorough) of seeded histories on all four store stacks, each compared operation by operation with a map model (every key, neighbouring absent paths, Iterate, return classes, panics). Evidence over the sampled histories, not a proof; path pools are built to force the structural coincidences (interior paths, one-element extensions, odd split points) where such tries break.",
        level_note="Trusted: the map reference model and the simulated RocksDB contract. The I/O-error configuration uses a deliberately narrow relaxation (failed op not applied; later ops may fail; never a wrong value).",
    ),
}
