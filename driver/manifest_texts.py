"""Texts for MANIFEST.json (level claims, techniques)."""

PENDING = "not claimed yet: the check for this property is still being built (see DESIGN.md section 15); no verdict is given"

NOT_APPLICABLE = {
    "C18": "pure, stateless arithmetic on one or two machine words: there is no schedule, clock, storage, peer, fault or history for a simulator to control (DESIGN.md section 10); exhaustive boundary enumeration or SMT is the fitting method, which is outside this task's technique",
    "C19": "ComputeTree/GetPathByIndex/VerifyMerklePath/SetTree are pure functions of (leaf list, index) on an in-memory array built once; the quantifier is over inputs only, so seeded search over schedules and faults has nothing to decide (DESIGN.md section 10)",
}

SIM = "deterministic simulation: seeded operation histories against an executable reference model"

TEXTS = {
    "C01": dict(
        engine="mptsim",
        design_ref="DESIGN.md section 5 (C01)",
        technique=SIM + " (map model compared after every operation), with injected node-store / disk I/O errors in a separate configuration; ddmin-minimised replay files",
        level_text="Exploration: tens of thousands (quick) to millions (thorough) of seeded histories on all four store stacks, each compared operation by operation with a map model (every key, neighbouring absent paths, Iterate, return classes, panics). Evidence over the sampled histories, not a proof; path pools are built to force the structural coincidences (interior paths, one-element extensions, odd split points) where such tries break.",
        level_note="Trusted: the map reference model and the simulated RocksDB contract. The I/O-error configuration uses a deliberately narrow relaxation (failed op not applied; later ops may fail; never a wrong value).",
    ),
    "C02": dict(
        engine="mptsim", design_ref="DESIGN.md section 5 (C02)",
        technique=SIM + ": refinement of the root hash against an independent canonical-trie hasher after every mutation, plus direct history-independence and injectivity checks; fault-free by nature",
        level_text="Exploration: every mutation of every sampled single-version history is checked against an independent re-implementation of the hash format on the canonical trie for the content (which gives history independence for all sampled pairs at once), plus a direct permuted rebuild and a root->content collision table.",
        level_note="Trusted: harness/refmpt as the reading of the published format (it agrees with the code on all insert-only histories, which is how it was calibrated). No fault kind applies.",
    ),
    "C03": dict(
        engine="mptsim", design_ref="DESIGN.md section 5 (C03)",
        technique=SIM + ": snapshot/compare of every trie of a parent/child/sibling tree around every operation (live observations of the same run), seeded interleaving of logical actors, merge/discard/stale-merge orders",
        level_text="Exploration over seeded trees of tries and interleavings; the oracle compares byte-level snapshots (root, content, pending changes incl. encodings, dead list, own store level) of every non-acting trie before/after each step, so aliasing between node objects of different tries is visible the moment it happens.",
        level_note="Trusted: the snapshot reads (through throw-away trie objects in half of the runs, so caches of the tries under test stay cold). Stale children may fail reads; they may not read wrong data.",
    ),
    "C14": dict(
        engine="mptsim", design_ref="DESIGN.md section 5 (C14)",
        technique=SIM + ": invariant monitor over every node store (memory levels, PNodeDB iteration, raw simulated-disk bytes) after every step",
        level_text="Exploration: the invariant 'stored under own hash, encode/decode/clone round trip, reachable nodes re-compute' is evaluated over all stores after every operation of every sampled history, with adversarial value bytes; node kinds and child-set sizes reached are counted in the evidence.",
        level_note="Trusted: the simulated RocksDB stores bytes verbatim. No fault kind applies.",
    ),
    "C17": dict(
        engine="mptsim", design_ref="DESIGN.md section 5 (C17)",
        technique="deterministic simulation with node-loss fault injection: seeded histories, seeded loss sets below the NodeDB seam, exact frontier oracle from the harness's own walk, repair from a donor store in seeded order at equal/different versions",
        level_text="Exploration over seeded contents x loss sets (single, subtree, scattered) x repair orders x versions, with an exact oracle for the reported missing set and for lookup outcomes, and byte comparison of the donor before/after.",
        level_note="Trusted: the harness's reachability walk over the store (uses NodeDB.GetNode and the node structs only).",
    ),
    "C04": dict(
        engine="mptsim", design_ref="DESIGN.md section 5 (C04)",
        technique="deterministic simulation with crash and I/O-error injection: seeded multi-round histories on the real PNodeDB over a simulated RocksDB; every prefix of each save's write stream (and sampled power-loss prefixes) is materialised as a crashed disk, reopened, checked and re-executed; in a separate configuration single writes of a save fail without a crash and the save is repeated (or the block given up)",
        level_text="Fault enumeration: within each sampled history the crash points of every save are enumerated exhaustively (every prefix of the write stream; batches atomic), each crashed disk is reopened with the real PNodeDB and checked for completeness of all earlier rounds and for re-execution giving the same root. Histories themselves are sampled.",
        level_note="Trusted: the simulated RocksDB's durability model (atomic batches, prefix survival). Context cancellation of SaveChanges is explored under the task scheduler by C16, not here.",
    ),
    "C05": dict(
        engine="mptsim", design_ref="DESIGN.md section 5 (C05)",
        technique="deterministic simulation with crash and I/O-error injection: dead-set vs. reachability invariant over seeded multi-round histories (mid-round records, failed record writes, blocks given up and replaced); PruneBelowVersion with a crash at every write index of its delete stream, reopen, re-run",
        level_text="Fault enumeration: every write index of every prune's stream is a crash point (exhaustive per history), for every sampled prune version; the dead-set/reachability invariant is evaluated incrementally for all round pairs of each history.",
        level_note="Trusted: the harness's reachability walk and the simulated RocksDB's durability model.",
    ),
    "C09": dict(
        engine="wmptsim", design_ref="DESIGN.md section 6 (C09)",
        technique=SIM + " (sorted map with total weight and cumulative-weight ownership; independent root hasher), histories x commit level x GC x reload; a separate configuration fails batch writes (commit / collector) once without a crash",
        level_text="Exploration: Weight() after every operation, root hash and the owner of every block after every commit, on the live trie and on a trie reloaded from storage, for tens of thousands to millions of seeded histories over key pools with shared prefixes of every length.",
        level_note="Trusted: harness/refwmpt (independent of core/util, sha3 only). Known finding listed: GC deletes stored nodes shared by two places of the trie (see known_findings.json).",
    ),
    "C11": dict(
        engine="wmptsim", design_ref="DESIGN.md section 6 (C11)",
        technique="deterministic simulation with crash injection: seeded histories on a simulated StorageAdapter (and real pebble on StrictMem); reopen-from-(root,weight) vs. live observations after every commit and GC pass; every prefix of the storage write log materialised as a crashed store; power loss as a generated operation; a separate configuration fails batch writes once and runs commits under a read outage, without a crash",
        level_text="Fault enumeration: within each sampled history every boundary between storage operations is a crash point (exhaustive), and the last surviving commit must be fully resolvable and observationally identical there; histories (incl. GC passes in any position and root reads at any time) are sampled.",
        level_note="Trusted: the simulated store's durability model. Known finding listed: shared stored nodes are deleted by GC (no reference counting).",
    ),
    "C13": dict(
        engine="wmptsim", design_ref="DESIGN.md section 6 (C13)",
        technique=SIM + ": checkpoint/commit/rollback cycles with storage key-set accounting and reopen-vs-live comparison of the checkpoint state; a separate configuration fails commit / collector / rollback batches once without a crash",
        level_text="Exploration over seeded checkpoint states, change batches (incl. same-value rewrites and delete/re-add of identical content), collapse levels, optional GC pass and both rollback entry points, with exact storage accounting (nothing of the checkpoint lost, nothing only the rolled-back commit wrote left).",
        level_note="Trusted: raw key-set snapshots of the simulated store. Known finding listed: shared stored nodes are deleted by GC.",
    ),
    "C10": dict(
        engine="wmptsim", design_ref="DESIGN.md section 6 (C10)",
        technique="deterministic simulation with fault injection on the prover->verifier channel: seeded contents, honest proofs for every block, seeded structured tampering sequences (swarm-selected kinds) with a soundness oracle; ddmin-minimised replays",
        level_text="Exploration: the honest half is checked for every block of every sampled content; the adversarial half samples tampering sequences (13 structural operators) against a soundness oracle that only fires when the trusted root is reproduced with a foreign value.",
        level_note="Trusted: harness/refwmpt for the trusted root and the true owner. Known finding listed: sibling re-weighting forges ownership (format-level defect).",
    ),
    "C12": dict(
        engine="wmptsim", design_ref="DESIGN.md section 6 (C12)",
        technique=SIM + ": partial trie vs. full trie under mirrored updates (refinement between two instances of the real code plus the reference weight), across source shapes, collapse levels and both sides of the parallel-collection threshold",
        level_text="Exploration over seeded source tries, requested key sets and follow-up update/delete sequences; each mirrored step compares root and weight of the partial and the full trie.",
        level_note="Trusted: the source trie itself as the reference (its own correctness is C09's subject). No fault kind applies.",
    ),
    "C06": dict(
        engine="cachesim", design_ref="DESIGN.md section 7 (C06)",
        technique=SIM + " (ancestor-chain model of the block tree; soundness of every hit), including long chains beyond the real LRU capacities",
        level_text="Exploration over seeded block trees, write/removal assignments and commit/lookup orders; every hit at every layer is compared with the block-tree model. Long-chain profiles reach the shipped capacities (no knob is altered).",
        level_note="Trusted: the block-tree reference model. Known finding listed: per-key LRU eviction lets the walk return an older ancestor's value.",
    ),
    "C07": dict(
        engine="cachesim", design_ref="DESIGN.md section 7 (C07)",
        technique=SIM + " (visibility + completeness model) with a 'scribble on every exchanged value' aliasing fault on both directions of every Set/Get",
        level_text="Exploration over seeded interleavings of set/remove/get/commit across several transaction and block caches with committed, uncommitted and abandoned ones, with mutable values (bytes and real trie nodes) that the harness mutates after every hand-over.",
        level_note="Trusted: the visibility model; capacity exemption decided from the model, not from the implementation.",
    ),
    "C08": dict(
        engine="cachesim+simrt", design_ref="DESIGN.md sections 4.5 and 7 (C08)",
        technique="deterministic simulation of threads: seeded scheduler (random walk / PCT / run-until-blocked / stalled task) over an instrumented copy of package statecache at map-access granularity, timing-independent value oracle + must-hit-after-commit oracle, same schedules under the race detector with a race-transparent hand-off; minimised explicit-schedule replays",
        level_text="Exploration over seeded schedules (tens of thousands quick, millions thorough) of committers and lock-free readers on a prepared block tree; distinct interleavings are counted. Not exhaustive; PCT and forced pre-emption strategies bias towards rare orders.",
        level_note="Trusted: the instrumenter (adds calls only) and simrt. Two builds: plain for value oracles, -race for the race clause.",
    ),
    "C16": dict(
        engine="mptsim+simrt", design_ref="DESIGN.md sections 4.5 and 5 (C16)",
        technique="deterministic simulation of threads: seeded scheduler over an instrumented copy of the trie (goroutines the trie starts itself are scheduled tasks, select case order is a scheduler choice, RWMutex writer preference modelled); recorded histories checked for linearizability with porcupine against a map model; final-root refinement; judged saves (what a save / abandoned save / save into a refusing store wrote); same schedules under the race detector; node-loss fault for lookups into absent nodes",
        level_text="Exploration over seeded schedules of 2-4 tasks x 2-6 operations on one trie (histories <= 40 operations so the linearizability search stays tractable; Unknown is inconclusive and never reported).",
        level_note="Trusted: porcupine, the map model, simrt and the instrumenter.",
    ),
    "C20": dict(
        engine="logsim+simrt", design_ref="DESIGN.md section 7 (C20)",
        technique=SIM + " (ring-buffer model) for sequential histories incl. totals far above the capacity, and a seeded scheduler over an instrumented inmemory_logger.go for concurrent writers/readers with a recency/suffix oracle; race detector build",
        level_text="Exploration over seeded derive/write histories and seeded schedules of concurrent writers and snapshot readers.",
        level_note="Trusted: the model (global write sequence) for sequential runs; for concurrent runs the per-task suffix/recency condition, which every linearisation satisfies.",
    ),
    "C15": dict(
        engine="corrupt", design_ref="DESIGN.md section 8 (C15)",
        technique="fault injection on the simulated disk, store, peer channel and io.Reader: seeded corruption operators (byte level and CBOR-structure level, torn writes at every offset) applied to real encodings and consumed through the real read paths; panic/hang oracle with decoder-scoped stacks; ddmin-minimised replays",
        level_text="Exploration: hundreds of thousands of corrupted variants of real encodings per quick run, through eight read paths; the weakest fit for the technique (no schedule; the fault is input mutation), kept because corrupted stored bytes and corrupted peer messages are fault kinds of the simulated disk and channel.",
        level_note="Trusted: the recover/stack scoping. A hang is detected by a 10 s wall-clock bound.",
    ),
}
