package wmptsim

import (
	"bytes"
	"fmt"
	"sort"

	"github.com/0chain/common/core/util/wmpt"

	"verif/harness/refwmpt"
	"verif/harness/sim"
)

// saveRoot takes a checkpoint (only on a clean trie, as the package's users do).
func (w *world) saveRoot() {
	if !w.clean {
		return
	}
	if w.guard("SaveRoot", func() { w.t.SaveRoot() }) {
		return
	}
	var rec commitRec
	if len(w.commits) > 0 {
		rec = w.commits[len(w.commits)-1]
	} else {
		rec = commitRec{root: refwmpt.Empty, weight: 0, model: map[string]refwmpt.Entry{}}
	}
	w.cp = &rec
	w.afterCP = 0
	w.gcSinceB = 0
	w.keysBeforeB, w.keysAfterB = nil, nil
	w.stats.Inc("probe.checkpoint")
	if w.kv != nil {
		var err error
		w.cpReach, err = reachable(w.kv.RawGet, rec.root, rec.weight)
		if err != nil {
			class := "undecodable"
			if me, ok := err.(*missingErr); ok {
				class = w.hashClass(me.hash, rec.model)
			}
			w.fail("c13.checkpoint", "checkpoint-unresolvable:"+class, "the checkpoint state is not resolvable from storage when it is taken: %v", err)
		}
	}
}

func (w *world) rollback(op WOp) {
	if !w.has("C13") || w.cp == nil {
		return
	}
	// the property quantifies over changes that were committed after the
	// checkpoint: exactly one commit since SaveRoot and nothing uncommitted on top
	// ... with at most one collector pass in between
	if w.afterCP != 1 || !w.clean || w.gcSinceB > 1 {
		w.stats.Inc("skipped.rollback-outside-quantifier")
		return
	}
	cp := w.cp
	entry := "Rollback"
	faulted := false
	// real pebble: there is no raw key listing; what only the rolled-back commit created is taken from two
	// reachability walks (state B minus checkpoint state A) made before the rollback
	var onlyB [][]byte
	if w.peb != nil && len(w.commits) > 0 {
		get := func(k []byte) ([]byte, bool) {
			v, err := w.peb.adapter.Get(k)
			return v, err == nil
		}
		last := w.commits[len(w.commits)-1]
		ra, ea := reachable(get, cp.root, cp.weight)
		rb, eb := reachable(get, last.root, last.weight)
		if ea == nil && eb == nil {
			for k := range rb {
				if !ra[k] {
					onlyB = append(onlyB, []byte(k))
				}
			}
			sort.Slice(onlyB, func(a, b int) bool { return bytes.Compare(onlyB[a], onlyB[b]) < 0 })
		}
	}
	if op.E && w.kv != nil {
		// the batch with which the rollback removes the nodes of the rolled-back commit fails (nothing applied); the
		// rollback entry points report no error, so afterwards only the leftover clause is relaxed
		w.kv.FailCommit = map[int]bool{w.kv.St.Batches + 1: true}
		before := w.kv.St.CommitErrs
		defer func() {
			w.kv.FailCommit = nil
		}()
		defer func() { _ = before }()
		faulted = true
	}
	errsBefore := 0
	if w.kv != nil {
		errsBefore = w.kv.St.CommitErrs
	}
	if w.guard("rollback", func() {
		if op.N%2 == 0 {
			w.t.Rollback()
		} else {
			entry = "RollbackTrie"
			w.t.RollbackTrie(wmpt.NewHashNode(cp.root, cp.weight))
		}
	}) {
		return
	}
	if w.kv != nil {
		w.kv.FailCommit = nil
		faulted = faulted && w.kv.St.CommitErrs > errsBefore
	}
	if faulted {
		w.stats.Inc("fault.rollback-batch-write-error")
	}
	w.rolledBack = true
	w.stats.Inc("probe.rollback-" + entry)
	if w.afterCP > 0 {
		w.stats.Inc("probe.rollback-of-a-commit")
	}
	if w.gcSinceB > 0 {
		w.stats.Inc("probe.rollback-after-gc")
	}
	var root []byte
	var weight uint64
	if w.guard("Root/Weight after rollback", func() { root, weight = w.t.Root(), w.t.Weight() }) {
		return
	}
	if !bytes.Equal(root, cp.root) || weight != cp.weight {
		w.fail("c13.root", entry+":root-or-weight", "after %s Root()=%x Weight()=%d, checkpoint was %x / %d", entry, root, weight, cp.root, cp.weight)
		return
	}
	// every node of the checkpoint state still resolvable, same observations
	if w.kv != nil {
		for k := range w.cpReach {
			if !w.kv.Has([]byte(k)) {
				w.fail("c13.resolvable", entry+":checkpoint-node-deleted:"+w.hashClass([]byte(k), cp.model), "after %s node %x of the checkpoint state is gone from storage", entry, k)
				return
			}
		}
	}
	if len(cp.blocks) > 0 || cp.weight == 0 {
		w.checkReopenAs(cp, "c13.resolvable", entry+":after-rollback")
	}
	if w.v != nil {
		return
	}
	// nodes only the rolled-back commit created are gone (unless the storage refused the deletes)
	if faulted {
		w.stats.Inc("relaxed.leftover-after-failed-delete-batch")
	} else if w.keysAfterB != nil {
		for k := range w.keysAfterB {
			if !w.keysBeforeB[k] && w.kv.Has([]byte(k)) {
				w.fail("c13.leftover", entry+":created-node-left", "after %s node %x, written only by the rolled-back commit, is still in storage", entry, k)
				return
			}
		}
	}
	if w.peb != nil && w.v == nil {
		// ... and stay gone when the database is closed and opened again (pebble flushes its memtable on the way)
		if err := w.peb.restart(); err != nil {
			w.fail("c13.leftover", "pebble-restart", "pebble failed to reopen after a clean close: %v", err)
			return
		}
		w.db = w.peb.adapter
		w.stats.Inc("probe.pebble-restarted-after-rollback")
		for _, k := range onlyB {
			if _, err := w.peb.adapter.Get(k); err == nil {
				w.fail("c13.leftover", entry+":created-node-back-after-restart", "after %s and a clean restart of the database node %x, reachable only from the rolled-back commit, is in storage", entry, k)
				return
			}
		}
		w.guard("reopen after restart", func() { w.t = wmpt.New(wmpt.NewHashNode(cp.root, cp.weight), w.db) })
		if cp.weight == 0 {
			w.guard("reopen after restart", func() { w.t = wmpt.New(nil, w.db) })
		}
	}
	w.model = map[string]refwmpt.Entry{}
	for k, v := range cp.model {
		w.model[k] = v
	}
	// the trie continues from the checkpoint
	w.commits = append(w.commits, *cp)
	w.commits[len(w.commits)-1].n = len(w.commits) - 1
	if w.kv != nil {
		w.commits[len(w.commits)-1].logIdx = w.kv.LogLen()
	}
	w.clean = true
	w.cp = nil
	w.log.Printf("rollback %s root=%x", entry, root)
}

func (w *world) checkReopenAs(rec *commitRec, oracle, where string) {
	save := w.v
	w.checkReopen(w.db.Get, rec, where)
	if w.v != nil && save == nil && w.v.Oracle != "gc.shared-node" {
		// (a missing node that is the listed shared-node finding keeps its own oracle id, so that it is matched
		// against known_findings.json however it surfaces)
		w.v.Oracle = oracle
	}
}

// steer: checkpoint / one commit of n new keys / rollback, repeated with n (and the choice of the last keys) adjusted
// by feedback until the commit has written exactly op.N new storage keys.  Batch boundaries inside the code under
// test (flush every so many nodes) are exact counts a random commit size practically never lands on; the number of
// keys a commit adds to storage is a public observation, so the harness can walk up to a chosen count.  Every
// rollback on the way is an ordinary, judged rollback.
func (w *world) steer(op WOp) {
	if !w.has("C13") || w.kv == nil || !w.clean || op.N <= 0 {
		return
	}
	r := sim.NewRand(uint64(op.B)*2654435761 + 17)
	base := len(w.keys)
	newKey := func() []byte {
		k := make([]byte, 32)
		for i := range k {
			k[i] = byte(r.U64())
		}
		return k
	}
	n := op.N * 10 / 24
	if n < 1 {
		n = 1
	}
	nv := 0
	for iter := 0; iter < 40 && w.v == nil; iter++ {
		for len(w.keys) < base+n {
			w.keys = append(w.keys, newKey())
		}
		w.saveRoot()
		if w.cp == nil || w.v != nil {
			return
		}
		for j := 0; j < n && w.v == nil; j++ {
			nv++
			w.update(base+j, []byte(fmt.Sprintf("%cs%d", byte('a'+nv%20), nv)), "update")
		}
		if w.v != nil {
			return
		}
		w.commit(WOp{K: "commit", N: op.I, Sync: true})
		if w.v != nil || w.keysAfterB == nil {
			return
		}
		created := 0
		for k := range w.keysAfterB {
			if !w.keysBeforeB[k] {
				created++
			}
		}
		w.stats.Inc("probe.steered-commit")
		if created == op.N {
			w.stats.Inc("probe.steered-commit-hit-exact-count")
		}
		w.rollback(WOp{K: "rollback", N: op.A})
		if w.v != nil || created == op.N {
			return
		}
		switch d := op.N - created; {
		case d > 3:
			n += d / 3
		case d < -3:
			n -= (-d) / 3
			if n < 1 {
				n = 1
			}
		default:
			// within one key of the target: what a key adds depends on where it lands; try other last keys
			if d > 0 {
				n++
			}
			for len(w.keys) < base+n {
				w.keys = append(w.keys, newKey())
			}
			for j := 0; j < 2 && n-1-j >= 0; j++ {
				w.keys[base+n-1-j] = newKey()
			}
			if d < 0 && r.Chance(1, 2) && n > 1 {
				n--
			}
		}
		w.keys = w.keys[:base+minInt(n, len(w.keys)-base)]
	}
}

func minInt(a, b int) int {
	if a < b {
		return a
	}
	return b
}
