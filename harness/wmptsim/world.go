// Package wmptsim simulates histories over the weighted Merkle trie (real code
// from core/util/wmpt) on a simulated StorageAdapter (or real pebble on a
// crash-simulating in-memory file system) and checks them against a sorted-map
// reference model.
package wmptsim

import (
	"bytes"
	"encoding/hex"
	"encoding/json"
	"fmt"
	"sort"
	"strings"

	"github.com/0chain/common/core/util/storage"
	"github.com/0chain/common/core/util/wmpt"

	"verif/harness/refwmpt"
	"verif/harness/sim"
	"verif/harness/simkv"
)

// WOp is one step of a weighted-trie script.
type WOp struct {
	K    string `json:"k"`
	I    int    `json:"i,omitempty"` // key index
	V    []byte `json:"v,omitempty"`
	N    int    `json:"n,omitempty"` // collapse level / variant / block
	Sync bool   `json:"sync,omitempty"`
	R    bool   `json:"r,omitempty"` // commit (C11): every storage read made while Commit() runs fails (the existence probes of the nodes it saves)
	E    bool   `json:"e,omitempty"` // commit / gc: the batch write fails once with an injected I/O error (nothing applied) and is tried again
	D    bool   `json:"d,omitempty"` // commit: keep the batch unwritten until after the next Commit() (pipelined batches)
	S    []int  `json:"s,omitempty"` // key index list (export)
	A    int    `json:"a,omitempty"` // tamper argument
	B    int    `json:"b,omitempty"` // tamper argument
}

// WScript describes one run.
type WScript struct {
	Prop  string   `json:"prop"`
	Store string   `json:"store"` // simkv | pebble
	Keys  []string `json:"keys"`  // hex, 32 bytes each
	Ops   []WOp    `json:"ops"`
	Huge  bool     `json:"huge,omitempty"` // tens of thousands of keys with unique values: per-operation reference counting is skipped
}

func (s *WScript) Len() int { return len(s.Ops) }
func (s *WScript) Without(drop []int) sim.Script {
	d := map[int]bool{}
	for _, i := range drop {
		d[i] = true
	}
	c := *s
	c.Ops = nil
	for i, o := range s.Ops {
		if !d[i] {
			c.Ops = append(c.Ops, o)
		}
	}
	return &c
}

func (s *WScript) Simpler() []sim.Script {
	var out []sim.Script
	mod := func(f func(c *WScript)) {
		c := *s
		c.Ops = append([]WOp{}, s.Ops...)
		c.Keys = append([]string{}, s.Keys...)
		f(&c)
		out = append(out, &c)
	}
	if s.Store != "simkv" {
		mod(func(c *WScript) { c.Store = "simkv" })
	}
	// simplify keys: zero the tail of a key
	for i, k := range s.Keys {
		i, k := i, k
		for _, cut := range []int{2, 8, 32} {
			if len(k) == 64 && strings.TrimRight(k, "0") != "" && len(strings.TrimRight(k, "0")) > cut {
				nk := k[:cut] + strings.Repeat("0", 64-cut)
				dup := false
				for _, o := range s.Keys {
					if o == nk {
						dup = true
					}
				}
				if !dup {
					mod(func(c *WScript) { c.Keys[i] = nk })
				}
			}
		}
	}
	for i, o := range s.Ops {
		i, o := i, o
		if len(o.V) > 1 {
			mod(func(c *WScript) { c.Ops[i].V = o.V[:1] })
		}
		if o.N > 0 && (o.K == "commit" || o.K == "export") {
			mod(func(c *WScript) { c.Ops[i].N = 0 })
		}
		if o.Sync {
			mod(func(c *WScript) { c.Ops[i].Sync = false })
		}
		if len(o.S) > 1 {
			for k := range o.S {
				k := k
				mod(func(c *WScript) { c.Ops[i].S = append(append([]int{}, o.S[:k]...), o.S[k+1:]...) })
			}
		}
	}
	return out
}

func Decode(b []byte) (sim.Script, error) {
	s := &WScript{}
	if err := json.Unmarshal(b, s); err != nil {
		return nil, err
	}
	return s, nil
}

// weightOf: a key's weight is determined by its value.
func weightOf(v []byte) uint64 {
	if len(v) == 0 {
		return 0
	}
	return 1 + uint64(v[0]%7)
}

// ---------------------------------------------------------------- world

type obs struct { // what a trie shows for one block number
	key, val string
	ok       bool
}

type commitRec struct {
	logIdx int // log length right after the batch was committed
	root   []byte
	weight uint64
	blocks []uint64
	table  []obs // parallel to blocks
	model  map[string]refwmpt.Entry
	n      int
}

type world struct {
	rolledBack bool // the last state change was a rollback (C13: the state it returned to is re-checked after collector passes)
	opE        bool // the running gc op carries an injected write error
	s          *WScript
	prop       string
	keys       [][]byte
	pending    []pendingBatch // C11: batches returned by Commit() that the caller has not written yet
	kv         *simkv.Store
	db         storage.StorageAdapter
	peb        *pebbleEnv
	t          *wmpt.WeightedMerkleTrie
	model      map[string]refwmpt.Entry
	last       map[int][]byte // last value written per key index (for re_add)
	clean      bool           // no mutation since the last commit
	dirtyRead  bool           // Root() was read while dirty in this window
	commits    []commitRec
	stats      sim.Stats
	log        *sim.Log
	v          *sim.Violation
	step       int
	states     map[string]bool

	syncedCommits int
	// value-node hashes that were retired by one key while another live key held the
	// same (value, weight): the stored value node is shared between them
	sharedRetired map[string]bool

	// C10
	c10 *c10

	// C12
	partial   *wmpt.WeightedMerkleTrie
	requested map[string]bool
	exportCtx string

	// C13
	keysBeforeB, keysAfterB map[string]bool
	cp                      *commitRec
	cpKeys                  map[string]bool
	cpReach                 map[string]bool
	afterCP                 int // commits since checkpoint
	gcSinceB                int
	changedSinceCP          bool
}

func (w *world) fail(oracle, class, f string, a ...interface{}) {
	if w.v == nil {
		detail := fmt.Sprintf(f, a...)
		if strings.Contains(class, "shared-node") {
			// one root cause, however it surfaces: a stored node shared by two places of the
			// trie was deleted by GC when one of them gave it up (diagnosed from the model)
			detail = "[" + oracle + " " + class + "] " + detail
			oracle, class = "gc.shared-node", "shared-node"
		}
		w.v = &sim.Violation{Property: w.prop, Oracle: oracle, Class: class, Detail: detail, Step: w.step}
	}
}

func (w *world) guard(what string, f func()) (panicked bool) {
	defer func() {
		if r := recover(); r != nil {
			panicked = true
			w.fail("panic", "panic:"+first(fmt.Sprint(r)), "%s panicked: %v", what, r)
		}
	}()
	f()
	return false
}

func first(s string) string {
	if i := strings.IndexByte(s, '\n'); i >= 0 {
		s = s[:i]
	}
	if len(s) > 60 {
		s = s[:60]
	}
	return s
}

func newWorld(s *WScript) *world {
	w := &world{s: s, prop: s.Prop, stats: sim.Stats{}, log: &sim.Log{}, model: map[string]refwmpt.Entry{}, last: map[int][]byte{}, states: map[string]bool{}, clean: true}
	for _, k := range s.Keys {
		b, err := hex.DecodeString(k)
		if err != nil || len(b) != 32 {
			b = make([]byte, 32)
		}
		w.keys = append(w.keys, b)
	}
	if s.Store == "pebble" {
		w.peb = newPebbleEnv()
		w.db = w.peb.adapter
	} else {
		w.kv = simkv.New()
		w.db = w.kv
	}
	w.t = wmpt.New(nil, w.db)
	return w
}

func (w *world) close() {
	if w.peb != nil {
		w.peb.close()
	}
}

func (w *world) key(i int) []byte {
	if len(w.keys) == 0 {
		return make([]byte, 32)
	}
	return w.keys[((i%len(w.keys))+len(w.keys))%len(w.keys)]
}

func (w *world) sorted() []refwmpt.Entry { return refwmpt.Sorted(w.model) }

// blocks to probe: all when W <= 128, else interval boundaries +-1 and a sample
func probeBlocks(sorted []refwmpt.Entry, total uint64) []uint64 {
	if total <= 128 {
		out := make([]uint64, 0, total)
		for b := uint64(1); b <= total; b++ {
			out = append(out, b)
		}
		return out
	}
	set := map[uint64]bool{1: true, total: true}
	var cum uint64
	for _, e := range sorted {
		for _, b := range []uint64{cum, cum + 1, cum + 2, cum + e.Weight - 1, cum + e.Weight, cum + e.Weight + 1} {
			if b >= 1 && b <= total {
				set[b] = true
			}
		}
		cum += e.Weight
	}
	r := sim.NewRand(total)
	for i := 0; i < 32; i++ {
		set[1+r.U64()%total] = true
	}
	out := make([]uint64, 0, len(set))
	for b := range set {
		out = append(out, b)
	}
	sort.Slice(out, func(a, b int) bool { return out[a] < out[b] })
	return out
}

// observe reads what trie t shows for block b: owner key and verified value.
func observe(t *wmpt.WeightedMerkleTrie, b uint64, wantRoot []byte) (o obs, err error) {
	key, proof, err := t.GetBlockProof(b)
	if err != nil {
		return o, err
	}
	verifier := wmpt.New(nil, nil)
	hash, val, err := verifier.VerifyBlockProof(b, proof)
	if err != nil {
		return o, fmt.Errorf("own proof does not verify: %v", err)
	}
	if wantRoot != nil && !bytes.Equal(hash, wantRoot) {
		return o, fmt.Errorf("own proof verifies to %x, root is %x", hash, wantRoot)
	}
	return obs{key: string(key), val: string(val), ok: true}, nil
}

// table observes every probe block of a clean trie.
func (w *world) table(t *wmpt.WeightedMerkleTrie, blocks []uint64, root []byte) (map[uint64]obs, error) {
	out := map[uint64]obs{}
	for _, b := range blocks {
		var o obs
		var err error
		if w.guard("GetBlockProof/VerifyBlockProof", func() { o, err = observe(t, b, root) }) {
			return nil, fmt.Errorf("panic")
		}
		if err != nil {
			return nil, fmt.Errorf("block %d: %v", b, err)
		}
		out[b] = o
	}
	return out, nil
}

// reachable walks raw storage from a root hash; returns the set of keys found
// and the first problem.
type missingErr struct {
	hash []byte
	msg  string
}

func (m *missingErr) Error() string { return m.msg }

func reachable(get func([]byte) ([]byte, bool), root []byte, weight uint64) (map[string]bool, error) {
	set := map[string]bool{}
	if weight == 0 {
		return set, nil
	}
	var walk func(h []byte) error
	walk = func(h []byte) error {
		if set[string(h)] {
			return nil
		}
		raw, ok := get(h)
		if !ok {
			return &missingErr{append([]byte{}, h...), fmt.Sprintf("node %x missing from storage", h)}
		}
		set[string(h)] = true
		refs, err := childRefs(raw)
		if err != nil {
			return fmt.Errorf("node %x undecodable: %v", h, err)
		}
		for _, c := range refs {
			if err := walk(c); err != nil {
				return err
			}
		}
		return nil
	}
	return set, walk(root)
}

// retireShared compares the canonical trie before and after a content change:
// a node hash that lost a reference but is still referenced elsewhere is a
// stored node shared between two places (nodes are addressed by content only).
func (w *world) retireShared(before map[string]int) {
	after := refwmpt.Counts(w.model)
	for h, n := range before {
		if a := after[h]; a >= 1 && a < n {
			if w.sharedRetired == nil {
				w.sharedRetired = map[string]bool{}
			}
			w.sharedRetired[h] = true
			w.stats.Inc("probe.shared-node-lost-a-reference")
		}
	}
}

// missingClass diagnoses a 'not found' failure: which node of the last committed
// state is missing from storage, and is it a value node that two keys shared?
func (w *world) missingClass() string {
	if len(w.commits) == 0 {
		return "no-commit"
	}
	rec := w.commits[len(w.commits)-1]
	rawGet := func(k []byte) ([]byte, bool) {
		v, err := w.db.Get(k)
		return v, err == nil
	}
	_, err := reachable(rawGet, rec.root, rec.weight)
	if err == nil {
		return "committed-state-complete"
	}
	me, ok := err.(*missingErr)
	if !ok {
		return "undecodable"
	}
	return w.hashClass(me.hash, rec.model)
}

func (w *world) hashClass(hash []byte, model map[string]refwmpt.Entry) string {
	d, live := refwmpt.Describe(model)[string(hash)]
	if w.sharedRetired[string(hash)] && live {
		return "shared-node"
	}
	if live {
		return "node-missing:" + d
	}
	return "node-missing:not-in-canonical-trie"
}

func sortStrings(s []string) { sort.Strings(s) }

func entryOf(key, v []byte) refwmpt.Entry {
	return refwmpt.Entry{Key: string(key), Value: append([]byte{}, v...), Weight: weightOf(v)}
}
