package wmptsim

import "verif/harness/sim"

func init() {
	for _, p := range []string{"C09", "C10", "C11", "C12", "C13"} {
		p := p
		sim.Register(&sim.Engine{
			Prop:   p,
			Gen:    func(r *sim.Rand, tier string) sim.Script { return Gen(p, r, tier) },
			Exec:   Exec,
			Decode: Decode,
		})
	}
}
