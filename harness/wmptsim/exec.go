package wmptsim

import (
	"bytes"
	"fmt"
	"sort"
	"strings"

	"github.com/0chain/common/core/util/storage"
	"github.com/0chain/common/core/util/wmpt"

	"verif/harness/refwmpt"
	"verif/harness/sim"
	"verif/harness/simkv"
)

var levels = []int{0, 1, 2, 3, 64}

// Exec runs a WScript for C09, C11 or C13.
func Exec(sc sim.Script) *sim.Outcome {
	s := sc.(*WScript)
	w := newWorld(s)
	defer w.close()
	for i, op := range s.Ops {
		w.step = i
		w.stats.Inc("op." + op.K)
		w.apply(op)
		if w.v != nil {
			break
		}
	}
	if w.v == nil {
		w.step = len(s.Ops)
		w.verify()
		w.final()
	}
	o := &sim.Outcome{V: w.v, Stats: w.stats, Digest: w.log.Digest()}
	for k := range w.states {
		o.States = append(o.States, k)
	}
	sort.Strings(o.States)
	o.Nontrivial = w.stats["mut"] >= 2 && w.stats["probe.commit"] >= 1
	return o
}

func (w *world) has(p string) bool { return w.prop == p }

func (w *world) modelCopy() map[string]refwmpt.Entry {
	m := make(map[string]refwmpt.Entry, len(w.model))
	for k, v := range w.model {
		m[k] = v
	}
	return m
}

func (w *world) checkWeight(after string) {
	if w.v != nil {
		return
	}
	want := refwmpt.Total(w.model)
	if got := w.t.Weight(); got != want {
		w.fail("c09.weight", after, "Weight() = %d after %s, sum of live weights is %d", got, after, want)
	}
}

func (w *world) apply(op WOp) {
	if w.partial != nil && op.K != "mupd" && op.K != "mdel" {
		return // after the export only mirrored updates follow
	}
	if w.c10 != nil && op.K != "verify" {
		if len(op.K) > 2 && op.K[:2] == "t." {
			w.tamper(op)
		}
		return // the prover is not updated after the proof was made
	}
	switch op.K {
	case "upd", "readd", "del", "root", "commit", "delall", "restore":
	default:
		w.flushPending() // batches are only ever held back across updates and the next Commit()
	}
	switch op.K {
	case "upd":
		if len(op.V) == 0 {
			return
		}
		if op.N%4 == 3 {
			w.update(op.I, op.V, "put") // the other public way of writing a key
		} else {
			w.update(op.I, op.V, "update")
		}
	case "readd":
		k := string(w.key(op.I))
		if e, ok := w.model[k]; ok {
			w.stats.Inc("probe.same-value-rewrite")
			w.update(op.I, e.Value, "same-value-rewrite")
		} else if v, ok := w.last[op.I%max(1, len(w.keys))]; ok {
			w.stats.Inc("probe.re-add-identical")
			w.update(op.I, v, "re-add")
		}
	case "del":
		w.delete(op)
	case "delall", "restore":
		// a batch that empties the trie, or one that returns it to exactly the content of the checkpoint
		target := map[string]refwmpt.Entry{}
		if op.K == "restore" {
			if w.cp == nil {
				return
			}
			target = w.cp.model
			w.stats.Inc("probe.batch-returns-to-checkpoint-content")
		} else {
			w.stats.Inc("probe.batch-deletes-everything")
		}
		idx := map[string]int{}
		for i := range w.keys {
			idx[string(w.keys[i])] = i
		}
		for _, e := range refwmpt.Sorted(w.model) {
			if _, keep := target[e.Key]; !keep && w.v == nil {
				w.delete(WOp{K: "del", I: idx[e.Key], N: op.N})
			}
		}
		var tk []string
		for k := range target {
			tk = append(tk, k)
		}
		sort.Strings(tk)
		for _, k := range tk {
			if cur, ok := w.model[k]; (!ok || !bytes.Equal(cur.Value, target[k].Value)) && w.v == nil {
				w.update(idx[k], target[k].Value, "restore")
			}
		}
	case "root":
		w.readRoot()
	case "commit":
		w.commit(op)
	case "gc":
		w.opE = op.E
		w.gc()
		w.opE = false
	case "reload":
		w.reload(op)
	case "crash":
		w.crash(op)
	case "saveroot":
		w.saveRoot()
	case "setroot":
		w.setRoot(op)
	case "rollback":
		w.rollback(op)
	case "steer":
		w.steer(op)
	case "prove":
		w.prove(op)
	case "verify":
		w.verify()
	case "export":
		w.export(op)
	case "mupd", "mdel":
		w.mirror(op)
	}
}

func max(a, b int) int {
	if a > b {
		return a
	}
	return b
}

func (w *world) collapsedBelow() string {
	if len(w.commits) > 0 && w.clean {
		return ":right-after-commit"
	}
	return ""
}

func (w *world) update(i int, v []byte, how string) {
	key := w.key(i)
	wt := weightOf(v)
	ctx := how
	if len(w.commits) > 0 {
		ctx += ":after-commit"
	}
	var err error
	if w.guard("Update", func() {
		if how == "put" {
			err = w.t.Put(key, v, wt)
		} else {
			err = w.t.Update(key, v, wt)
		}
	}) {
		return
	}
	if err != nil {
		w.fail("op-error", "update:"+w.errClass(err), "Update(%x) returned %v", key[:4], err)
		return
	}
	w.stats.Inc("mut")
	if w.s.Huge {
		// unique values: no stored node can be shared by two places, nothing to retire
		w.model[string(key)] = refwmpt.Entry{Key: string(key), Value: append([]byte{}, v...), Weight: wt}
	} else {
		before := refwmpt.Counts(w.model)
		w.model[string(key)] = refwmpt.Entry{Key: string(key), Value: append([]byte{}, v...), Weight: wt}
		w.retireShared(before)
	}
	w.last[i%max(1, len(w.keys))] = append([]byte{}, v...)
	w.clean = false
	w.changedSinceCP = true
	if w.has("C09") {
		w.checkWeight(ctx)
	}
}

func (w *world) delete(op WOp) {
	key := w.key(op.I)
	_, present := w.model[string(key)]
	var err error
	api := "Update(k,nil)"
	if w.guard("delete", func() {
		if op.N%2 == 0 {
			err = w.t.Update(key, nil, 0)
		} else {
			api = "Delete(k)"
			_, err = w.t.Delete(key)
		}
	}) {
		return
	}
	ctx := "delete"
	if len(w.commits) > 0 {
		ctx += ":after-commit"
	}
	if present {
		if err != nil {
			w.fail("op-error", "delete-present:"+w.errClass(err), "%s of a present key returned %v", api, err)
			return
		}
		w.stats.Inc("mut")
		w.stats.Inc("probe.delete-present")
		if w.s.Huge {
			delete(w.model, string(key))
		} else {
			before := refwmpt.Counts(w.model)
			delete(w.model, string(key))
			w.retireShared(before)
		}
		w.clean = false
		w.changedSinceCP = true
	} else {
		w.stats.Inc("probe.delete-absent")
		if err == nil {
			// reported success: nothing may have changed
			w.clean = false
		}
	}
	if w.has("C09") {
		w.checkWeight(ctx)
	}
}

func (w *world) readRoot() {
	var r []byte
	if w.guard("Root", func() { r = w.t.Root() }) {
		return
	}
	if !w.clean {
		w.stats.Inc("probe.root-read-while-dirty")
		w.dirtyRead = true
	}
	if w.has("C09") {
		if want := refwmpt.Root(w.model); !bytes.Equal(r, want) {
			w.fail("c09.root", "root-mismatch", "Root() = %x, independent root of the content is %x", r, want)
		}
	}
}

func (w *world) commit(op WOp) {
	// C13: further commits under a checkpoint are legal history (the checkpoint is abandoned: a rollback is
	// only executed and judged when exactly one commit followed the latest SaveRoot, see rollback)
	level := levels[((op.N%len(levels))+len(levels))%len(levels)]
	var before map[string]bool
	if w.has("C13") && w.cp != nil {
		before = w.storeKeys()
	}
	wroteSomething := w.t.GetRoot() != nil && w.t.GetRoot().Dirty()
	wasClean := w.clean // no update or delete since the last commit
	var err error
	// a batch can only be held back when its commit collapses nothing (level 64: every node stays in memory);
	// otherwise the live trie itself could not read the nodes it has just turned into hash references
	deferred := op.D && w.has("C11") && level == 64
	if w.guard("Commit", func() {
		if op.R && w.kv != nil && w.has("C11") {
			// a read outage while Commit() runs: the only reads it makes are the probes "is this node in storage
			// already?", whose errors it does not report
			w.kv.FailAllGets = true
			w.stats.Inc("fault.read-errors-during-commit")
		}
		b, e := w.t.Commit(level)
		if w.kv != nil {
			w.kv.FailAllGets = false
		}
		if e != nil {
			err = e
			return
		}
		if deferred {
			// the caller owns the batch: it is written later, after the next Commit() has run, in order
			w.pending = append(w.pending, pendingBatch{commit: func() error { return b.Commit(op.Sync) }, n: len(w.commits), sync: op.Sync && wroteSomething})
			w.stats.Inc("probe.batch-held-back-across-next-commit")
			return
		}
		w.flushPending()
		if w.v != nil {
			return
		}
		if op.E && w.kv != nil {
			// separate fault-injecting configuration: the write of this batch fails once (nothing is applied); the
			// caller sees the error and writes the same batch again
			w.kv.FailCommit = map[int]bool{w.kv.St.Batches + 1: true}
			e1 := b.Commit(op.Sync)
			w.kv.FailCommit = nil
			w.stats.Inc("fault.batch-write-error")
			if e1 == nil {
				w.fail("c11.fault", "write-error-swallowed", "the write of a commit's batch failed with an injected I/O error and Commit(sync) on the batch reported success")
				return
			}
		}
		err = b.Commit(op.Sync)
	}) {
		return
	}
	if w.v != nil {
		return
	}
	if err != nil {
		w.fail("op-error", "commit:"+w.errClass(err), "Commit(%d) returned %v", level, err)
		return
	}
	w.stats.Inc("probe.commit")
	w.stats.Inc(fmt.Sprintf("probe.commit-level-%d", level))
	if w.dirtyRead {
		w.stats.Inc("probe.commit-after-dirty-root-read")
	}
	w.dirtyRead = false
	w.clean = true
	if !wasClean {
		w.rolledBack = false
	}
	root := append([]byte{}, w.t.Root()...)
	rec := commitRec{root: root, weight: w.t.Weight(), n: len(w.commits), model: w.modelCopy()}
	if w.kv != nil {
		rec.logIdx = w.kv.LogLen()
	}
	w.log.Printf("commit level=%d root=%x weight=%d", level, root, rec.weight)
	w.states[sim.Digest(refwmpt.Shape(w.model), fmt.Sprint(level))] = true
	if w.has("C09") {
		w.checkWeight("commit")
		if want := refwmpt.Root(w.model); !bytes.Equal(root, want) && w.v == nil {
			w.fail("c09.root", "root-mismatch-after-commit", "Root() after commit = %x, independent root of the content is %x", root, want)
		}
		w.checkOwners(w.t, "live")
		if w.v == nil && rec.weight > 0 {
			w.checkOwners(wmpt.New(wmpt.NewHashNode(root, rec.weight), w.db), "reloaded")
		}
	}
	if w.has("C11") || w.has("C13") {
		// observation of the LIVE trie right after its commit
		blocks := probeBlocks(w.sorted(), rec.weight)
		tab, terr := w.table(w.t, blocks, root)
		if terr != nil {
			if w.v == nil {
				w.fail("c11.live", "live-unreadable-after-commit:"+w.errClass(terr), "live trie cannot prove its own blocks right after commit: %v", terr)
			}
			return
		}
		rec.table = make([]obs, 0, len(blocks))
		for _, b := range blocks {
			rec.table = append(rec.table, tab[b])
		}
		rec.blocks = blocks
	}
	w.commits = append(w.commits, rec)
	if deferred {
		return // judged when its batch has been written (flushPending)
	}
	if op.Sync && wroteSomething { // an empty batch does not reach the WAL, so it syncs nothing
		w.syncedCommits = len(w.commits)
	}
	if w.has("C11") {
		w.checkReopen(w.db.Get, &w.commits[len(w.commits)-1], "after-commit")
	}
	if w.has("C13") && w.cp != nil {
		if wasClean && w.afterCP >= 1 {
			// a Commit of the state that has just been committed (a flush helper called twice, a retry) is not a
			// second batch of changes: the rollback window stays what it was. (The first commit after a checkpoint
			// always counts, also when its batch is empty or empties the trie.)
			w.stats.Inc("probe.commit-with-nothing-to-save-under-a-checkpoint")
			return
		}
		w.afterCP++
		w.gcSinceB = 0
		w.keysBeforeB = before
		w.keysAfterB = w.storeKeys()
	}
}

// checkOwners: GetBlockProof(b) names the key whose cumulative-weight interval contains b.
func (w *world) checkOwners(t *wmpt.WeightedMerkleTrie, which string) {
	sorted := w.sorted()
	total := refwmpt.Total(w.model)
	if t.Weight() != total {
		w.fail("c09.weight", which+"-trie", "%s trie has weight %d, content sums to %d", which, t.Weight(), total)
		return
	}
	for _, b := range probeBlocks(sorted, total) {
		var key []byte
		var err error
		if w.guard("GetBlockProof", func() { key, _, err = t.GetBlockProof(b) }) {
			return
		}
		want, _ := refwmpt.Owner(sorted, b)
		if err != nil {
			w.fail("c09.owner", which+":proof-error:"+w.errClass(err), "%s trie: GetBlockProof(%d) of %d failed: %v", which, b, total, err)
			return
		}
		if string(key) != want.Key {
			w.fail("c09.owner", which+":wrong-owner", "%s trie: block %d of %d is owned by %x, GetBlockProof names %x", which, b, total, want.Key[:4], key)
			return
		}
		w.stats.Inc("check.owner")
	}
	// out of range
	var err error
	w.guard("GetBlockProof", func() { _, _, err = t.GetBlockProof(total + 1) })
	if err == nil && w.v == nil {
		w.fail("c09.owner", which+":out-of-range-accepted", "GetBlockProof(%d) succeeded although the total weight is %d", total+1, total)
	}
}

// checkReopen: a trie reopened from (root, weight) on the storage behind get
// must be observationally identical to what the live trie showed at commit.
func (w *world) checkReopen(get func([]byte) ([]byte, error), rec *commitRec, where string) {
	if w.v != nil {
		return
	}
	rawGet := func(k []byte) ([]byte, bool) {
		v, err := get(k)
		return v, err == nil
	}
	if _, err := reachable(rawGet, rec.root, rec.weight); err != nil {
		class := "undecodable"
		if me, ok := err.(*missingErr); ok {
			class = w.hashClass(me.hash, rec.model)
		}
		w.fail("c11.resolvable", where+":"+class, "%s: root %x of commit #%d is not fully resolvable: %v", where, rec.root[:4], rec.n, err)
		return
	}
	db := getOnly{get}
	var t *wmpt.WeightedMerkleTrie
	if rec.weight > 0 {
		t = wmpt.New(wmpt.NewHashNode(rec.root, rec.weight), db)
	} else {
		t = wmpt.New(nil, db)
	}
	if t.Weight() != rec.weight {
		w.fail("c11.reopen", where+":weight", "reopened weight %d != %d", t.Weight(), rec.weight)
		return
	}
	tab, err := w.table(t, rec.blocks, rec.root)
	if err != nil {
		if w.v == nil {
			w.fail("c11.reopen", where+":proof:"+w.errClass(err), "%s: trie reopened from commit #%d: %v", where, rec.n, err)
		}
		return
	}
	for i, b := range rec.blocks {
		if tab[b] != rec.table[i] {
			w.fail("c11.reopen", where+":differs", "%s: block %d: reopened trie shows (%x,%q), live trie showed (%x,%q)", where, b, tab[b].key, tab[b].val, rec.table[i].key, rec.table[i].val)
			return
		}
	}
	w.stats.Inc("check.reopen")
}

func (w *world) gc() {
	if w.has("C13") && w.cp != nil && w.afterCP >= 1 {
		w.gcSinceB++ // more than one pass between a commit and its rollback is outside C13's quantifier (see rollback)
	}
	var err error
	if w.opE && w.kv != nil {
		// the collector's delete batch fails once: DeleteNodes reports the error (if it had anything to delete) and
		// the pass is made again
		w.kv.FailCommit = map[int]bool{w.kv.St.Batches + 1: true}
		before := w.kv.St.CommitErrs
		var e1 error
		if w.guard("DeleteNodes under a write error", func() { e1 = w.t.DeleteNodes() }) {
			return
		}
		w.kv.FailCommit = nil
		if w.kv.St.CommitErrs > before {
			w.stats.Inc("fault.gc-batch-write-error")
			if e1 == nil {
				w.fail("c11.fault", "gc-write-error-swallowed", "the collector's delete batch failed with an injected I/O error and DeleteNodes reported success")
				return
			}
			if w.step%2 == 1 {
				// the caller does not try again at once: it carries on, and whichever collector pass the script makes
				// next is the retry (the failed pass deleted nothing and does not count as a pass)
				w.stats.Inc("probe.failed-collector-pass-not-repeated-at-once")
				if w.has("C13") && w.cp != nil && w.afterCP >= 1 {
					w.gcSinceB--
				}
				return
			}
		} else {
			// nothing was due for deletion: the pass has been made (no write happened)
			w.stats.Inc("probe.gc")
			w.log.Printf("gc")
			if w.has("C11") && len(w.commits) > 0 {
				w.checkReopen(w.db.Get, &w.commits[len(w.commits)-1], "after-gc")
			}
			return
		}
	}
	if w.guard("DeleteNodes", func() { err = w.t.DeleteNodes() }) {
		return
	}
	if err != nil {
		w.fail("op-error", "gc:"+first(err.Error()), "DeleteNodes returned %v", err)
		return
	}
	w.stats.Inc("probe.gc")
	w.log.Printf("gc")
	if w.has("C11") && len(w.commits) > 0 {
		w.checkReopen(w.db.Get, &w.commits[len(w.commits)-1], "after-gc")
	}
	if w.has("C13") && w.rolledBack && w.clean && len(w.commits) > 0 {
		// the state a rollback returned to stays resolvable through the collector passes that follow it
		if rec := &w.commits[len(w.commits)-1]; len(rec.blocks) > 0 || rec.weight == 0 {
			w.checkReopenAs(rec, "c13.resolvable", "after-gc-after-rollback")
			w.stats.Inc("check.resolvable-after-gc-after-rollback")
		}
	}
}

// setRoot installs a root node through the public SetRoot: the trie's own state again, as a copy of its root or as
// a hash reference to the last commit.
func (w *world) setRoot(op WOp) {
	if !w.clean || len(w.commits) == 0 {
		return
	}
	rec := w.commits[len(w.commits)-1]
	if rec.weight == 0 {
		return
	}
	switch op.N % 3 {
	case 0:
		w.guard("SetRoot(CopyRoot)", func() { w.t.SetRoot(w.t.CopyRoot((op.N / 3) % 4)) })
		w.stats.Inc("probe.setroot-own-state")
	case 1:
		w.guard("SetRoot(hash of the last commit)", func() { w.t.SetRoot(wmpt.NewHashNode(rec.root, rec.weight)) })
		w.stats.Inc("probe.setroot-own-state")
	default:
		// (not generated: SetRoot with a DIFFERENT committed state, e.g. the checkpoint's. On the unchanged tree the
		// pending deletes collected on the way from that state are not dropped, and the next collector passes delete
		// the nodes of the state just installed - going back is what Rollback / RollbackTrie are for; DESIGN.md 16.4)
	}
}

func (w *world) reload(op WOp) {
	if !w.clean || len(w.commits) == 0 {
		return
	}
	rec := w.commits[len(w.commits)-1]
	root := w.t.GetRoot()
	switch {
	case rec.weight == 0 || root == nil:
		w.t = wmpt.New(nil, w.db)
	case op.N%16 == 15 && !w.has("C12") && !w.has("C10"):
		// a trie rooted at the public shallow Node.Copy() of the root: its short-node children are bare hash
		// references, a shape the library never builds itself. Weights, owners, roots, recovery and rollback hold
		// on such tries on the unchanged tree (C09, C11, C13). Not generated for C12: an EXPORT from such a trie
		// already loses the embedded short nodes there and mirrored deletes diverge - see DESIGN.md 16.4
		w.guard("Copy", func() { w.t = wmpt.New(root.Copy(), w.db) })
		w.stats.Inc("probe.reload-from-root-copy")
	case op.N%4 >= 2:
		w.guard("CopyRoot", func() { w.t = wmpt.New(w.t.CopyRoot((op.N/4)%4), w.db) })
		w.stats.Inc("probe.reload-from-copyroot")
	default:
		w.t = wmpt.New(wmpt.NewHashNode(rec.root, rec.weight), w.db)
	}
	w.cp = nil
	w.stats.Inc("probe.reload")
}

// crash: power loss / process crash as a generated operation; the run continues on the surviving state.
func (w *world) crash(op WOp) {
	if !w.has("C11") {
		return
	}
	var surviving int // number of commits whose batch survived
	if w.kv != nil {
		ls, ll := w.kv.LastSync(), w.kv.LogLen()
		j := ls + ((op.N%(ll-ls+1))+(ll-ls+1))%(ll-ls+1)
		w.kv = w.kv.CloneAtPrefix(j)
		w.db = w.kv
		for _, c := range w.commits {
			if c.logIdx <= j {
				surviving = c.n + 1
			}
		}
		w.stats.Inc("fault.power-loss")
		if j < ll {
			w.stats.Inc("probe.power-loss-dropped-writes")
		}
	} else {
		if err := w.peb.powerLoss(); err != nil {
			w.fail("c11.crash", "pebble-reopen", "pebble failed to reopen after power loss: %v", err)
			return
		}
		w.db = w.peb.adapter
		surviving = w.syncedCommits
		w.stats.Inc("fault.power-loss-pebble")
	}
	w.stats.Inc("crash.points")
	// drop lost commits
	w.commits = w.commits[:surviving]
	if w.kv != nil {
		// re-number log indices: the clone's log is empty, every kept commit is in its base
		for i := range w.commits {
			w.commits[i].logIdx = 0
		}
	}
	if surviving == 0 {
		w.t = wmpt.New(nil, w.db)
		w.model = map[string]refwmpt.Entry{}
	} else {
		rec := &w.commits[surviving-1]
		w.checkReopen(w.db.Get, rec, "after-crash")
		if w.v != nil {
			return
		}
		if rec.weight > 0 {
			w.t = wmpt.New(wmpt.NewHashNode(rec.root, rec.weight), w.db)
		} else {
			w.t = wmpt.New(nil, w.db)
		}
		w.model = map[string]refwmpt.Entry{}
		for k, v := range rec.model {
			w.model[k] = v
		}
	}
	w.clean = true
	w.dirtyRead = false
	w.log.Printf("crash surviving=%d", surviving)
}

func (w *world) storeKeys() map[string]bool {
	m := map[string]bool{}
	if w.kv != nil {
		for _, k := range w.kv.Keys() {
			m[k] = true
		}
	}
	return m
}

// final: C11 crash enumeration over every prefix of the storage write log.
type pendingBatch struct {
	commit func() error
	n      int // index of its commit record
	sync   bool
}

// flushPending writes the held-back batches in commit order and then judges their commits.
func (w *world) flushPending() {
	if len(w.pending) == 0 {
		return
	}
	ps := w.pending
	w.pending = nil
	for _, p := range ps {
		var err error
		if w.guard("Batch.Commit (held back)", func() { err = p.commit() }) {
			return
		}
		if err != nil {
			w.fail("op-error", "commit:"+w.errClass(err), "writing a held-back batch returned %v", err)
			return
		}
		if w.kv != nil && p.n < len(w.commits) {
			w.commits[p.n].logIdx = w.kv.LogLen()
		}
		if p.sync {
			w.syncedCommits = p.n + 1
		}
	}
	// only the newest state is what a reopened trie has to equal (older ones may legitimately have been
	// superseded by the later batch)
	if last := ps[len(ps)-1]; last.n == len(w.commits)-1 && w.has("C11") && w.v == nil {
		w.checkReopen(w.db.Get, &w.commits[last.n], "after-held-back-commit")
	}
}

func (w *world) final() {
	w.flushPending()
	if !w.has("C11") || w.kv == nil {
		return
	}
	ll := w.kv.LogLen()
	for j := 0; j <= ll && w.v == nil; j++ {
		var rec *commitRec
		for i := range w.commits {
			if w.commits[i].logIdx <= j {
				rec = &w.commits[i]
			}
		}
		if rec == nil {
			continue
		}
		clone := w.kv.CloneAtPrefix(j)
		w.stats.Inc("crash.points")
		w.stats.Inc("fault.crash-between-batches")
		w.checkReopen(clone.Get, rec, fmt.Sprintf("crash-at-prefix"))
	}
}

// getOnly adapts a Get function to a StorageAdapter (reopened tries only read).
type getOnly struct {
	get func([]byte) ([]byte, error)
}

func (g getOnly) Get(k []byte) ([]byte, error) { return g.get(k) }
func (g getOnly) Put([]byte, []byte) error     { return fmt.Errorf("read-only") }
func (g getOnly) Delete([]byte) error          { return fmt.Errorf("read-only") }
func (g getOnly) Close()                       {}
func (g getOnly) NewBatch() storage.Batcher    { return simkv.New().NewBatch() }

// errClass: 'not found' errors are diagnosed against the last committed state.
func (w *world) errClass(err error) string {
	msg := first(err.Error())
	if strings.Contains(msg, "not found") {
		return "not-found:" + w.missingClass()
	}
	return msg
}
