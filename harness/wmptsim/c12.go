package wmptsim

import (
	"bytes"
	"fmt"
	"sort"

	"github.com/0chain/common/core/util/wmpt"
)

// C12: a partial trie built from a path export evolves like the full trie.

func (w *world) export(op WOp) {
	if !w.has("C12") || w.partial != nil {
		return
	}
	var keys [][]byte
	seen := map[string]bool{}
	present, absent := 0, 0
	for _, i := range op.S {
		k := w.key(i)
		if seen[string(k)] {
			continue
		}
		seen[string(k)] = true
		keys = append(keys, k)
		if _, ok := w.model[string(k)]; ok {
			present++
		} else {
			absent++
		}
	}
	w.requested = seen
	shape := "empty"
	if len(w.model) == 1 {
		shape = "single-entry"
	} else if len(w.model) > 1 {
		first := map[byte]bool{}
		for k := range w.model {
			first[k[0]>>4] = true
		}
		if len(first) > 1 {
			shape = "root-branch"
		} else {
			shape = "root-shared-prefix"
		}
	}
	side := "le10"
	if len(keys) > 10 {
		side = "gt10"
		w.stats.Inc("probe.export-parallel-path")
	}
	w.stats.Inc("probe.export-" + shape + "-" + side)
	if absent > 0 {
		w.stats.Inc("probe.export-with-absent-keys")
	}
	ctx := shape + ":" + side
	if root := w.t.GetRoot(); root != nil && root.Dirty() {
		// an in-memory source with uncommitted changes: hashes are computed before
		// exporting, as the package's own users do (root.CalcHash() before GetPath)
		w.guard("CalcHash", func() { root.CalcHash() })
		w.stats.Inc("probe.export-from-uncommitted-in-memory-source")
	}
	if op.B%4 == 1 && w.clean && len(keys) > 0 {
		// fork: the export is taken from a snapshot made with CopyRoot while the trie it was copied from goes
		// on being updated (one requested key gets a new value there, uncommitted). The snapshot must not notice.
		var snap *wmpt.WeightedMerkleTrie
		if w.guard("CopyRoot", func() { snap = wmpt.New(w.t.CopyRoot(100), w.db) }) {
			return
		}
		nv := []byte("changed-in-the-original-after-the-snapshot")
		w.guard("Update of the original", func() { _ = w.t.Update(keys[0], nv, weightOf(nv)) })
		w.t = snap
		w.stats.Inc("probe.export-from-a-copyroot-snapshot-of-a-trie-that-moves-on")
	}
	var data []byte
	var err error
	if op.A > 0 && w.kv != nil {
		// fault-injecting configuration: the A-th storage read of the export fails. The export may fail; the
		// source trie must be none the worse for it: the export is simply asked for again.
		// (chosen by key, not by ordinal: exports of more than 10 keys read storage from several goroutines)
		e0 := w.kv.St.GetErrs
		var sk []string
		for k := range w.storeKeys() {
			sk = append(sk, k)
		}
		sort.Strings(sk)
		if len(sk) > 0 {
			w.kv.FailKeys = map[string]bool{sk[op.A%len(sk)]: true}
		}
		if w.guard("GetPath (storage read fault)", func() { data, err = w.t.GetPath(keys) }) {
			return
		}
		w.kv.FailKeys = nil
		if w.kv.St.GetErrs > e0 {
			w.stats.Inc("fault.any")
			w.stats.Inc("fault.export-storage-read-error")
			if err != nil {
				w.stats.Inc("probe.export-failed-and-was-repeated")
			}
		}
	}
	if w.guard("GetPath", func() { data, err = w.t.GetPath(keys) }) {
		return
	}
	if err != nil {
		w.fail("c12.export", "getpath-error:"+ctx+":"+w.errClass(err), "GetPath(%d keys) failed: %v", len(keys), err)
		return
	}
	p := wmpt.New(nil, nil)
	if w.guard("Deserialize", func() { err = p.Deserialize(data) }) {
		return
	}
	if err != nil {
		w.fail("c12.import", "deserialize-error:"+ctx, "Deserialize of a %d-byte export (%d keys, source %s) failed: %v", len(data), len(keys), shape, err)
		return
	}
	w.partial = p
	w.exportCtx = ctx
	w.stats.Inc("mut")
	w.compareMirror("after-import")
}

func (w *world) compareMirror(when string) {
	if w.v != nil || w.partial == nil {
		return
	}
	var sr, pr []byte
	var sw, pw uint64
	if w.guard("Root/Weight", func() {
		sr, sw = w.t.Root(), w.t.Weight()
		pr, pw = w.partial.Root(), w.partial.Weight()
	}) {
		return
	}
	if !bytes.Equal(sr, pr) || sw != pw {
		w.fail("c12.mirror", when+":"+w.exportCtx, "%s: partial trie root %x weight %d, source root %x weight %d", when, pr, pw, sr, sw)
	}
	w.stats.Inc("check.mirror")
}

// mirror applies the same update/delete of a requested key to both tries.
func (w *world) mirror(op WOp) {
	if w.partial == nil || len(w.requested) == 0 {
		return
	}
	// pick among requested keys deterministically
	var ks []string
	for k := range w.requested {
		ks = append(ks, k)
	}
	sortStrings(ks)
	key := []byte(ks[((op.I%len(ks))+len(ks))%len(ks)])
	_, present := w.model[string(key)]
	var es, ep error
	what := "update"
	if op.K == "mdel" {
		what = "delete"
		if w.guard("mirrored delete", func() {
			es = w.t.Update(key, nil, 0)
			ep = w.partial.Update(key, nil, 0)
		}) {
			return
		}
		if present {
			w.stats.Inc("probe.mirror-delete-present")
		}
	} else {
		if len(op.V) == 0 {
			return
		}
		if w.guard("mirrored update", func() {
			es = w.t.Update(key, op.V, weightOf(op.V))
			ep = w.partial.Update(key, op.V, weightOf(op.V))
		}) {
			return
		}
		if !present {
			w.stats.Inc("probe.mirror-insert-absent-requested-key")
		}
	}
	w.stats.Inc("mut")
	if (es == nil) != (ep == nil) {
		w.fail("c12.mirror", fmt.Sprintf("%s:error-differs:%s", what, w.exportCtx), "mirrored %s of requested key %x: source returned %v, partial trie returned %v", what, key[:4], es, ep)
		return
	}
	if es == nil {
		if what == "delete" {
			delete(w.model, string(key))
		} else {
			w.model[string(key)] = entryOf(key, op.V)
		}
	}
	w.compareMirror("after-" + what)
}
