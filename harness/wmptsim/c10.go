package wmptsim

import (
	"bytes"
	"encoding/binary"
	"fmt"

	"github.com/0chain/common/core/util/wmpt"
	"github.com/fxamacker/cbor/v2"

	"verif/harness/refwmpt"
)

// C10: block proofs verify for the honest trie and cannot be forged.
//
// The "channel" between prover and verifier carries the proof as a list of
// node blobs; the adversary applies structured tamperings to that list.

func decodeProof(p []byte) ([][]byte, error) {
	var pt wmpt.PersistTrie
	if err := cbor.Unmarshal(p, &pt); err != nil {
		return nil, err
	}
	out := make([][]byte, 0, len(pt.Pairs))
	for _, pr := range pt.Pairs {
		if pr == nil {
			out = append(out, nil)
			continue
		}
		out = append(out, pr.Value)
	}
	return out, nil
}

func encodeProof(nodes [][]byte) []byte {
	pt := wmpt.PersistTrie{}
	for _, n := range nodes {
		pt.Pairs = append(pt.Pairs, &wmpt.PersistTriePair{Value: n})
	}
	b, err := cbor.Marshal(&pt)
	if err != nil {
		panic(err)
	}
	return b
}

func decodeNode(b []byte) *wmpt.PersistNodeBase {
	var p wmpt.PersistNodeBase
	if err := cbor.Unmarshal(b, &p); err != nil {
		return nil
	}
	return &p
}

func encodeNode(p *wmpt.PersistNodeBase) []byte {
	b, err := cbor.Marshal(p)
	if err != nil {
		panic(err)
	}
	return b
}

type c10 struct {
	block   uint64   // block the honest proof was made for
	asked   uint64   // block the verifier is asked about
	nodes   [][]byte // the message on the channel
	honest  [][]byte
	bank    [][]byte // nodes of other honest proofs (other blocks, another trie)
	root    []byte
	sorted  []refwmpt.Entry
	total   uint64
	tampers int
	done    bool
	// long-lived verifier (a third of the runs): one verifier object checks every proof of the run, honest and
	// tampered; afterwards the honest proofs are checked on it once more
	shared *wmpt.WeightedMerkleTrie
	proofs []honestProof
}

type honestProof struct {
	b     uint64
	proof []byte
}

func (st *c10) verifier() *wmpt.WeightedMerkleTrie {
	if st.shared != nil {
		return st.shared
	}
	return wmpt.New(nil, nil)
}

// prove: the honest half for every probed block, then pick one proof for the channel.
func (w *world) prove(op WOp) {
	if !w.has("C10") || w.c10 != nil {
		return
	}
	total := refwmpt.Total(w.model)
	if total == 0 {
		return
	}
	if root := w.t.GetRoot(); root != nil && root.Dirty() {
		// proofs are served from a hashed (committed or CalcHash'ed) trie
		w.guard("CalcHash", func() { root.CalcHash() })
	}
	sorted := w.sorted()
	root := refwmpt.Root(w.model)
	var live []byte
	w.guard("Root", func() { live = w.t.Root() })
	if !bytes.Equal(live, root) {
		// C09's subject; without a trusted root there is nothing to check here
		w.stats.Inc("skipped.root-differs-from-reference")
		return
	}
	st := &c10{root: root, sorted: sorted, total: total}
	if (op.N/7)%3 == 0 {
		st.shared = wmpt.New(nil, nil)
		w.stats.Inc("probe.one-verifier-object-for-all-proofs")
	}
	blocks := probeBlocks(sorted, total)
	for _, b := range blocks {
		var key, proof, hash, val []byte
		var err error
		if w.guard("GetBlockProof", func() { key, proof, err = w.t.GetBlockProof(b) }) {
			return
		}
		if err != nil {
			w.fail("c10.honest", "proof-error:"+w.errClass(err), "GetBlockProof(%d of %d) failed: %v", b, total, err)
			return
		}
		if w.guard("VerifyBlockProof", func() { hash, val, err = st.verifier().VerifyBlockProof(b, proof) }) {
			return
		}
		if st.shared != nil && len(st.proofs) < 64 {
			st.proofs = append(st.proofs, honestProof{b, append([]byte{}, proof...)})
		}
		want, _ := refwmpt.Owner(sorted, b)
		if err != nil {
			w.fail("c10.honest", "honest-proof-rejected", "the honest proof for block %d of %d is rejected: %v", b, total, err)
			return
		}
		if !bytes.Equal(hash, root) {
			w.fail("c10.honest", "honest-proof-wrong-root", "the honest proof for block %d verifies to %x, the trie's root is %x", b, hash, root)
			return
		}
		if !bytes.Equal(val, want.Value) || string(key) != want.Key {
			w.fail("c10.honest", "honest-proof-wrong-owner", "block %d of %d: proof names key %x value %q, the owner is %x value %q", b, total, key, val, want.Key[:4], want.Value)
			return
		}
		w.stats.Inc("check.honest-proof")
		nodes, derr := decodeProof(proof)
		if derr != nil {
			w.fail("c10.honest", "proof-not-cbor", "honest proof does not decode: %v", derr)
			return
		}
		st.bank = append(st.bank, nodes...)
	}
	// proofs of another trie (one value changed) for substitution
	other := wmpt.New(nil, nil)
	for i, e := range sorted {
		v := e.Value
		if i == int(op.N)%len(sorted) {
			v = append([]byte{v[0]}, []byte("-other")...)
		}
		other.Update([]byte(e.Key), v, weightOf(v))
	}
	other.GetRoot().CalcHash()
	for _, b := range blocks {
		if _, p, err := other.GetBlockProof(b); err == nil {
			if nodes, err := decodeProof(p); err == nil {
				st.bank = append(st.bank, nodes...)
			}
		}
	}
	st.block = blocks[((op.N%len(blocks))+len(blocks))%len(blocks)]
	st.asked = st.block
	_, proof, _ := w.t.GetBlockProof(st.block)
	st.honest, _ = decodeProof(proof)
	st.nodes = append([][]byte{}, st.honest...)
	w.c10 = st
	w.stats.Inc("mut")
	w.stats.Inc("probe.commit") // counts as the committed observation point for non-triviality
}

// hashedBody returns the byte string a branch or short node hashes (nil for other kinds).
func hashedBody(b []byte) []byte {
	p := decodeNode(b)
	if p == nil {
		return nil
	}
	switch {
	case p.Branch != nil:
		var sum uint64
		body := make([]byte, 8, 8+16*32)
		for i := 0; i < 16; i++ {
			if i < len(p.Branch.Children) && len(p.Branch.Children[i]) >= 40 {
				body = append(body, p.Branch.Children[i][:32]...)
				sum += weightAt(p.Branch.Children[i])
			} else {
				body = append(body, refwmpt.Empty...)
			}
		}
		binary.BigEndian.PutUint64(body[:8], sum)
		return body
	case p.Short != nil && len(p.Short.Value) == 40:
		return append(append([]byte{}, p.Short.Key...), p.Short.Value[:32]...)
	}
	return nil
}

func weightAt(blob []byte) uint64 { return binary.BigEndian.Uint64(blob[32:40]) }
func setWeight(blob []byte, w uint64) []byte {
	c := append([]byte{}, blob...)
	binary.BigEndian.PutUint64(c[32:40], w)
	return c
}

// tamper applies one structured modification to the message.
func (w *world) tamper(op WOp) {
	st := w.c10
	if st == nil || len(st.nodes) == 0 {
		return
	}
	n := len(st.nodes)
	idx := ((op.A % n) + n) % n
	kind := op.K[2:]
	before := encodeProof(st.nodes)
	switch kind {
	case "reweight", "swaphash", "swapchild", "zero":
		p := decodeNode(st.nodes[idx])
		if p == nil || p.Branch == nil {
			// find the first branch at or after idx
			found := false
			for k := 0; k < n && !found; k++ {
				j := (idx + k) % n
				if q := decodeNode(st.nodes[j]); q != nil && q.Branch != nil {
					p, idx, found = q, j, true
				}
			}
			if !found {
				return
			}
		}
		var present []int
		for i, c := range p.Branch.Children {
			if len(c) >= 40 {
				present = append(present, i)
			}
		}
		if len(present) < 2 {
			return
		}
		b := ((op.B % 1000003) + 1000003) % 1000003
		i := present[b%len(present)]
		j := present[(b/len(present))%len(present)]
		if i == j {
			j = present[(b%len(present)+1)%len(present)]
		}
		ci, cj := p.Branch.Children[i], p.Branch.Children[j]
		switch kind {
		case "reweight":
			wi := weightAt(ci)
			if wi == 0 {
				return
			}
			d := 1 + uint64(b/7)%wi
			p.Branch.Children[i] = setWeight(ci, wi-d)
			p.Branch.Children[j] = setWeight(cj, weightAt(cj)+d)
		case "zero":
			p.Branch.Children[j] = setWeight(cj, weightAt(cj)+weightAt(ci))
			p.Branch.Children[i] = setWeight(ci, 0)
		case "swaphash":
			ni, nj := append([]byte{}, ci...), append([]byte{}, cj...)
			copy(ni[:32], cj[:32])
			copy(nj[:32], ci[:32])
			p.Branch.Children[i], p.Branch.Children[j] = ni, nj
		case "swapchild":
			p.Branch.Children[i], p.Branch.Children[j] = cj, ci
		}
		st.nodes[idx] = encodeNode(p)
	case "subst":
		if len(st.bank) > 0 {
			st.nodes[idx] = st.bank[((op.B%len(st.bank))+len(st.bank))%len(st.bank)]
		}
	case "drop":
		st.nodes = append(append([][]byte{}, st.nodes[:idx]...), st.nodes[idx+1:]...)
	case "dup":
		st.nodes = append(append(append([][]byte{}, st.nodes[:idx+1]...), st.nodes[idx]), st.nodes[idx+1:]...)
	case "reorder":
		j := ((op.B % n) + n) % n
		c := append([][]byte{}, st.nodes...)
		c[idx], c[j] = c[j], c[idx]
		st.nodes = c
	case "trunc":
		st.nodes = append([][]byte{}, st.nodes[:idx]...)
	case "flip":
		if len(st.nodes[idx]) > 0 {
			c := append([]byte{}, st.nodes[idx]...)
			bit := ((op.B % (len(c) * 8)) + len(c)*8) % (len(c) * 8)
			c[bit/8] ^= 1 << uint(bit%8)
			st.nodes[idx] = c
		}
	case "shortw":
		for k := 0; k < n; k++ {
			j := (idx + k) % n
			if p := decodeNode(st.nodes[j]); p != nil && p.Short != nil && len(p.Short.Value) == 40 {
				p.Short.Value = setWeight(p.Short.Value, weightAt(p.Short.Value)+uint64(1+op.B%5))
				st.nodes[j] = encodeNode(p)
				break
			}
		}
	case "valw":
		for k := 0; k < n; k++ {
			j := (idx + k) % n
			if p := decodeNode(st.nodes[j]); p != nil && p.Value != nil {
				if op.B%2 == 0 {
					p.Value.Weight += uint64(1 + op.B%5)
				} else {
					p.Value.Value = append(append([]byte{}, p.Value.Value...), 'x')
				}
				st.nodes[j] = encodeNode(p)
				break
			}
		}
	case "block":
		st.asked = 1 + uint64(((op.B%int(st.total))+int(st.total))%int(st.total))
	case "leafas":
		// the other direction of the missing domain separation: a LEAF presented as an inner node. A key
		// owner can store a value whose bytes end with the hash of a value node of their choosing (or consist
		// of sixteen hash slots); the leaf's hashed bytes weight||value then read as a short node key||childHash
		// (or as a branch), and the proof continues below the end of the key path into the chosen node.
		fake := op.V
		fe := refwmpt.Entry{Value: fake, Weight: weightOf(fake)}
		fh := refwmpt.ValueHash(fe)
		var cum uint64
		for _, e := range st.sorted {
			v := e.Value
			short := len(v) > 32 && len(v) != 512 && bytes.Equal(v[len(v)-32:], fh)
			branch := len(v) == 512 && bytes.Equal(v[:32], fh)
			if !short && !branch {
				cum += e.Weight
				continue
			}
			b := cum + 1 + uint64(op.A)%e.Weight
			_, proof, err := w.t.GetBlockProof(b)
			if err != nil {
				return
			}
			nodes, err := decodeProof(proof)
			if err != nil || len(nodes) == 0 {
				return
			}
			last := decodeNode(nodes[len(nodes)-1])
			if last == nil || last.Value == nil {
				return
			}
			body := append(be8(last.Value.Weight), last.Value.Value...)
			var re *wmpt.PersistNodeBase
			if short {
				re = &wmpt.PersistNodeBase{Short: &wmpt.PersistNodeShort{Key: body[:len(body)-32], Hash: last.Value.Hash, Value: append(append([]byte{}, fh...), be8(last.Value.Weight)...)}}
			} else {
				ch := make([][]byte, 16)
				ch[0] = append(append([]byte{}, fh...), be8(last.Value.Weight)...)
				re = &wmpt.PersistNodeBase{Branch: &wmpt.PersistNodeBranch{Hash: last.Value.Hash, Children: ch}}
			}
			inner := &wmpt.PersistNodeBase{Value: &wmpt.PersistNodeValue{Value: fake, Hash: fh, Weight: fe.Weight}}
			st.block, st.asked = b, b
			st.honest = nodes
			st.nodes = append(append([][]byte{}, nodes[:len(nodes)-1]...), encodeNode(re), encodeNode(inner))
			w.stats.Inc("probe.leaf-presented-as-inner-node")
			break
		}
	case "retype":
		// present a branch (or short) node as a VALUE node whose weight||value bytes are exactly the
		// bytes the original node hashes: there is no domain separation between node kinds
		for k := 0; k < n; k++ {
			j := (idx + k) % n
			body := hashedBody(st.nodes[j])
			if len(body) < 9 {
				continue
			}
			nv := &wmpt.PersistNodeBase{Value: &wmpt.PersistNodeValue{Value: body[8:], Weight: binary.BigEndian.Uint64(body[:8])}}
			st.nodes = append(append([][]byte{}, st.nodes[:j]...), encodeNode(nv))
			break
		}
	}
	if !bytes.Equal(before, encodeProof(st.nodes)) || kind == "block" {
		st.tampers++
		w.stats.Inc("fault.tamper-" + kind)
	}
}

// verify: the verifier is asked about st.asked with the (tampered) message.
func (w *world) verify() {
	st := w.c10
	if st == nil || st.done {
		return
	}
	st.done = true
	msg := encodeProof(st.nodes)
	var hash, val []byte
	var err error
	if w.guard("VerifyBlockProof (tampered)", func() { hash, val, err = st.verifier().VerifyBlockProof(st.asked, msg) }) {
		return
	}
	defer func() {
		// whatever the verifier made of the tampered message, honest proofs still verify on it afterwards
		for _, hp := range st.proofs {
			if w.v != nil {
				return
			}
			var h, v []byte
			var e error
			if w.guard("VerifyBlockProof (honest, after a tampered one)", func() { h, v, e = st.shared.VerifyBlockProof(hp.b, hp.proof) }) {
				return
			}
			o, _ := refwmpt.Owner(st.sorted, hp.b)
			switch {
			case e != nil:
				w.fail("c10.honest", "honest-proof-rejected-after-a-tampered-one", "the honest proof for block %d of %d is rejected by a verifier that has seen a tampered proof before: %v", hp.b, st.total, e)
			case !bytes.Equal(h, st.root) || !bytes.Equal(v, o.Value):
				w.fail("c10.honest", "honest-proof-wrong-after-a-tampered-one", "the honest proof for block %d verifies to root %x value %q on a verifier that has seen a tampered proof before (root %x, owner's value %q)", hp.b, h, v, st.root, o.Value)
			}
			w.stats.Inc("check.honest-proof-after-tampered")
		}
	}()
	w.stats.Inc("check.verify")
	if st.tampers > 0 {
		w.stats.Inc("fault.any")
	}
	want, _ := refwmpt.Owner(st.sorted, st.asked)
	switch {
	case err != nil:
		w.stats.Inc("probe.tampered-proof-rejected")
		if st.tampers == 0 {
			w.fail("c10.honest", "honest-proof-rejected", "untampered proof for block %d rejected: %v", st.asked, err)
		}
	case !bytes.Equal(hash, st.root):
		w.stats.Inc("probe.tampered-proof-other-root")
	case bytes.Equal(val, want.Value):
		w.stats.Inc("probe.tampered-proof-still-right")
	default:
		w.fail("c10.forged", "forged:"+w.forgeryKind(st, val), "verification of a tampered proof for block %d of %d yields the trusted root %x and value %q; the owner's value is %q", st.asked, st.total, hash[:4], val, want.Value)
	}
	w.log.Printf("verify asked=%d tampers=%d err=%v", st.asked, st.tampers, err != nil)
}

// effHashed renders the fields of a proof node that enter its recomputed hash
// (what the root commitment binds): branch = child hashes + weight sum, short =
// key, value = value + weight.  Claimed per-child weights, claimed short-node
// weights and stored hash fields are not bound and are left out.
func effHashed(b []byte) string { return effHashedExcept(b, -1) }

// slotOf: the child slot of branch node b whose claimed hash is the hash the next path node claims for itself.
func slotOf(b, next []byte) int {
	p, q := decodeNode(b), decodeNode(next)
	if p == nil || p.Branch == nil || q == nil {
		return -1
	}
	var h []byte
	switch {
	case q.Branch != nil:
		h = q.Branch.Hash
	case q.Short != nil:
		h = q.Short.Hash
	case q.Value != nil:
		h = q.Value.Hash
	}
	for i, c := range p.Branch.Children {
		if len(c) >= 40 && h != nil && bytes.Equal(c[:32], h) {
			return i
		}
	}
	return -1
}

func effHashedExcept(b []byte, skip int) string {
	p := decodeNode(b)
	if p == nil {
		return "undecodable:" + string(b)
	}
	switch {
	case p.Branch != nil:
		s := "B"
		var sum uint64
		for i, c := range p.Branch.Children {
			if len(c) >= 40 {
				if i == skip {
					s += "|on-path"
				} else {
					s += fmt.Sprintf("|%x", c[:32])
				}
				sum += weightAt(c)
			} else {
				s += "|-"
			}
		}
		return s + fmt.Sprintf("#%d", sum)
	case p.Short != nil:
		return fmt.Sprintf("S|%x", p.Short.Key)
	case p.Value != nil:
		return fmt.Sprintf("V|%x|%d", p.Value.Value, p.Value.Weight)
	}
	return "other:" + string(b)
}

func be8(w uint64) []byte {
	var b [8]byte
	binary.BigEndian.PutUint64(b[:], w)
	return b[:]
}

func childWeights(b []byte) string {
	p := decodeNode(b)
	if p == nil || p.Branch == nil {
		return ""
	}
	s := ""
	for _, c := range p.Branch.Children {
		if len(c) >= 40 {
			s += fmt.Sprintf("%d,", weightAt(c))
		} else {
			s += "-,"
		}
	}
	return s
}

// forgeryKind classifies an accepted forged message: "sibling-reweight" iff it
// is, node by node in terms of hashed fields, the honest proof path to the leaf
// whose value was returned, with the per-child weight claims of at least one
// branch redistributed (so that the asked block lands on that leaf).  Any
// other accepted forgery is "other".
func (w *world) forgeryKind(st *c10, returned []byte) string {
	var owner *refwmpt.Entry
	var first uint64 = 1
	for i := range st.sorted {
		if bytes.Equal(st.sorted[i].Value, returned) {
			owner = &st.sorted[i]
			break
		}
		first += st.sorted[i].Weight
	}
	if owner == nil {
		// the value of no key: is it the hashed body of an honest branch/short node presented as a value node?
		for _, nb := range st.nodes {
			p := decodeNode(nb)
			if p == nil || p.Value == nil || !bytes.Equal(p.Value.Value, returned) {
				continue
			}
			presented := append(be8(p.Value.Weight), p.Value.Value...)
			for _, hb := range append(append([][]byte{}, st.bank...), st.honest...) {
				if body := hashedBody(hb); body != nil && bytes.Equal(body, presented) {
					return "retyped-node"
				}
			}
		}
		return "other:value-of-no-key"
	}
	_, proof, err := w.t.GetBlockProof(first)
	if err != nil {
		return "other:no-honest-path"
	}
	honest, err := decodeProof(proof)
	if err != nil || len(st.nodes) < len(honest) {
		return "other:shorter-than-honest-path"
	}
	reweighted := false
	for i := range honest {
		// The hash a branch claims for the child the path continues into is not bound either: the verifier
		// replaces that child by the node it recomputes from the rest of the message. (Found by the thorough
		// tier: a root branch substituted from the proof of another trie, differing only in that slot, plus a
		// redistribution of the claimed weights, was classified as a new kind of forgery.)
		skip := -1
		if i+1 < len(honest) {
			skip = slotOf(honest[i], honest[i+1])
		}
		if effHashedExcept(st.nodes[i], skip) != effHashedExcept(honest[i], skip) {
			return "other:altered-hashed-field"
		}
		if childWeights(st.nodes[i]) != childWeights(honest[i]) {
			reweighted = true
		}
	}
	if !reweighted {
		return "other:honest-path-accepted-for-foreign-block"
	}
	return "sibling-reweight"
}
