package wmptsim

import (
	"bytes"
	"encoding/hex"
	"fmt"
	"os"

	"verif/harness/refwmpt"
	"verif/harness/sim"
)

// keyPool builds 32-byte keys sharing prefixes of chosen nibble lengths.
func keyPool(r *sim.Rand, n int) []string {
	var pool [][]byte
	rnd := func() []byte {
		b := make([]byte, 32)
		for i := range b {
			b[i] = byte(r.U64())
		}
		return b
	}
	for len(pool) < n {
		if len(pool) == 0 || r.Chance(1, 4) {
			pool = append(pool, rnd())
			continue
		}
		q := pool[r.Intn(len(pool))]
		// share the first `nib` nibbles with q
		nib := []int{0, 1, 2, 3, 4, 8, 16, 31, 62, 63}[r.Intn(10)]
		if r.Chance(1, 3) {
			nib = r.Intn(64)
		}
		k := rnd()
		copy(k, q[:nib/2])
		if nib%2 == 1 {
			k[nib/2] = q[nib/2]&0xf0 | k[nib/2]&0x0f
			if k[nib/2] == q[nib/2] {
				k[nib/2] ^= 1
			}
		} else if nib/2 < 32 && k[nib/2]>>4 == q[nib/2]>>4 {
			k[nib/2] ^= 0x10
		}
		pool = append(pool, k)
	}
	seen := map[string]bool{}
	var out []string
	for _, k := range pool {
		h := hex.EncodeToString(k)
		if !seen[h] {
			seen[h] = true
			out = append(out, h)
		}
	}
	return out
}

// twinPool: keys = prefixes x tails (2-3 prefixes of one nibble length, 2-3 tails): with values that depend on the
// tail only, whole subtrees at different positions are byte-identical (stored nodes are addressed by content alone).
func twinPool(r *sim.Rand) (keys []string, tailOf []int) {
	d := []int{1, 1, 2, 2, 3, 4, 8, 20, 62}[r.Intn(9)]
	nib := func(n int) []byte {
		b := make([]byte, n)
		for i := range b {
			b[i] = "0123456789abcdef"[r.Intn(16)]
		}
		return b
	}
	var pre, tails [][]byte
	for len(pre) < 2+r.Intn(2) {
		p := nib(d)
		if len(pre) > 0 && r.Chance(1, 2) { // differ from an earlier prefix in the last nibble only
			p = append([]byte{}, pre[0]...)
			p[d-1] = "0123456789abcdef"[r.Intn(16)]
		}
		dup := false
		for _, q := range pre {
			dup = dup || bytes.Equal(p, q)
		}
		if !dup {
			pre = append(pre, p)
		}
	}
	for len(tails) < 2+r.Intn(2) {
		t := nib(64 - d)
		if len(tails) > 0 && r.Chance(2, 3) { // tails share a prefix of their own
			k := r.Intn(len(t))
			copy(t, tails[0][:k])
		}
		dup := false
		for _, q := range tails {
			dup = dup || bytes.Equal(t, q)
		}
		if !dup {
			tails = append(tails, t)
		}
	}
	for _, p := range pre {
		for ti, t := range tails {
			keys = append(keys, string(p)+string(t))
			tailOf = append(tailOf, ti)
		}
	}
	if r.Chance(1, 2) {
		keys = append(keys, string(nib(64)))
		tailOf = append(tailOf, len(tails))
	}
	return
}

func genVal(r *sim.Rand, n int, small bool) []byte {
	if small {
		return []byte{"abc"[r.Intn(3)]}
	}
	v := []byte(fmt.Sprintf("%c%d", byte('a'+r.Intn(20)), n))
	if r.Chance(1, 6) { // lengths around hash-sized and larger buffers; the unique prefix and the unique tail both matter
		l := []int{31, 32, 33, 40, 64, 100, 1000, 1000, 2400, 3000, 5000, 70000}[r.Intn(12)]
		pad := make([]byte, l)
		for i := range pad {
			pad[i] = 'p'
		}
		copy(pad, v[:1])
		copy(pad[l-len(v)+1:], v[1:]) // unique part at the END, common bytes in front
		v = pad
	}
	return v
}

// Gen generates a script for C09, C11 or C13.
func Gen(prop string, r *sim.Rand, tier string) sim.Script {
	sc := gen0(prop, r, tier)
	// options added later are drawn last
	if s, ok := sc.(*WScript); ok && s.Store == "simkv" && (prop == "C11" || prop == "C13" || prop == "C09") && r.Chance(1, 6) {
		// I/O errors without a crash: some batch writes (of commits and of collector passes) fail once and are repeated
		for i := range s.Ops {
			if (s.Ops[i].K == "commit" || s.Ops[i].K == "gc" || s.Ops[i].K == "rollback") && !s.Ops[i].D && r.Chance(1, 3) {
				s.Ops[i].E = true
			}
			if s.Ops[i].K == "commit" && prop == "C11" && r.Chance(1, 3) {
				s.Ops[i].R = true
			}
		}
	}
	return sc
}

func gen0(prop string, r *sim.Rand, tier string) sim.Script {
	s := &WScript{Prop: prop, Store: "simkv"}
	if r.Chance(1, 12) {
		s.Store = "pebble"
	}
	nKeys := 1 + r.Intn(12)
	if r.Chance(1, 5) {
		nKeys = 1 + r.Intn(3)
	}
	if prop == "C12" && r.Chance(1, 2) {
		nKeys = 8 + r.Intn(24) // enough distinct keys for requests beyond the parallel threshold
	}
	nOps := 2 + r.Intn(40)
	if tier == "thorough" && r.Chance(1, 60) {
		nKeys = 20 + r.Intn(60)
		nOps = 100 + r.Intn(200)
	}
	if prop == "C12" && r.Chance(1, 3000) {
		// an export of far more than 2^17 nodes: every key of a trie with tens of thousands of keys is requested
		s.Huge = true
		nKeys = 56000 + r.Intn(14000)
		s.Keys = keyPool(r, nKeys)
		ex := WOp{K: "export"}
		for i := 0; i < nKeys; i++ {
			s.Ops = append(s.Ops, WOp{K: "upd", I: i, V: []byte(fmt.Sprintf("%c%d", byte('a'+r.Intn(20)), i))})
			ex.S = append(ex.S, i)
		}
		if r.Chance(1, 2) {
			s.Ops = append(s.Ops, WOp{K: "commit", N: r.Intn(5), Sync: true})
		}
		s.Ops = append(s.Ops, ex)
		for j := 0; j < 6; j++ {
			if r.Chance(1, 3) {
				s.Ops = append(s.Ops, WOp{K: "mdel", I: r.Intn(nKeys)})
			} else {
				s.Ops = append(s.Ops, WOp{K: "mupd", I: r.Intn(nKeys), V: []byte(fmt.Sprintf("z%d", j))})
			}
		}
		return s
	}
	if prop == "C13" && r.Chance(1, 50) {
		// real pebble: checkpoint, a commit in which several keys get one and the same value (content-addressed nodes
		// written more than once in one batch), rollback, clean restart of the database
		s.Store = "pebble"
		s.Keys = keyPool(r, 3+r.Intn(6))
		for i := 0; i < 1+r.Intn(3); i++ {
			s.Ops = append(s.Ops, WOp{K: "upd", I: i, V: genVal(r, i, false)})
		}
		s.Ops = append(s.Ops, WOp{K: "commit", N: r.Intn(5), Sync: true}, WOp{K: "saveroot"})
		same := genVal(r, 100, false)
		for j := 2 + r.Intn(4); j > 0; j-- {
			v := same
			if r.Chance(1, 4) {
				v = genVal(r, 200+j, false)
			}
			s.Ops = append(s.Ops, WOp{K: "upd", I: r.Intn(len(s.Keys)), V: v})
		}
		s.Ops = append(s.Ops, WOp{K: "commit", N: r.Intn(5), Sync: r.Chance(1, 2)})
		if r.Chance(1, 3) {
			s.Ops = append(s.Ops, WOp{K: "gc"})
		}
		s.Ops = append(s.Ops, WOp{K: "rollback", N: r.Intn(2)})
		for j := r.Intn(3); j > 0; j-- {
			s.Ops = append(s.Ops, WOp{K: "upd", I: r.Intn(len(s.Keys)), V: genVal(r, 300+j, false)})
		}
		s.Ops = append(s.Ops, WOp{K: "commit", N: r.Intn(5), Sync: true})
		return s
	}
	if prop == "C13" && r.Chance(1, 1000) {
		// a commit steered to an exact number of new storage keys (batch boundaries), then rolled back
		s.Store = "simkv"
		s.Keys = keyPool(r, 1+r.Intn(3))
		for i := range s.Keys {
			s.Ops = append(s.Ops, WOp{K: "upd", I: i, V: genVal(r, i, false)})
		}
		s.Ops = append(s.Ops, WOp{K: "commit", N: r.Intn(5), Sync: true})
		if r.Chance(1, 2) {
			s.Ops = append(s.Ops, WOp{K: "gc"})
		}
		s.Ops = append(s.Ops, WOp{K: "steer", N: []int{128, 256, 256, 256, 512, 512, 1000, 1024, 1024, 2048}[r.Intn(10)], B: r.Intn(1 << 30), A: r.Intn(2), I: r.Intn(5)})
		return s
	}
	if prop == "C13" && r.Chance(1, 2) {
		// round-structured histories: checkpoints are taken before some batches only, batches may return to the
		// checkpoint's content, delete everything or be empty, collector passes and rollbacks in between
		s.Store = "simkv"
		s.Keys = keyPool(r, 1+r.Intn(5))
		nv := 0
		batch := func() {
			switch r.Intn(7) {
			case 0, 1:
				s.Ops = append(s.Ops, WOp{K: "restore", N: r.Intn(2)})
			case 2:
				s.Ops = append(s.Ops, WOp{K: "delall", N: r.Intn(2)})
			case 3:
			default:
				for j := 1 + r.Intn(4); j > 0; j-- {
					ki := r.Intn(len(s.Keys))
					switch r.Intn(4) {
					case 0:
						s.Ops = append(s.Ops, WOp{K: "del", I: ki, N: r.Intn(2)})
					case 1:
						s.Ops = append(s.Ops, WOp{K: "readd", I: ki})
					default:
						nv++
						s.Ops = append(s.Ops, WOp{K: "upd", I: ki, V: genVal(r, nv, false)})
					}
				}
			}
		}
		for rd := 2 + r.Intn(6); rd > 0; rd-- {
			if r.Chance(1, 2) {
				s.Ops = append(s.Ops, WOp{K: "saveroot"})
			}
			batch()
			s.Ops = append(s.Ops, WOp{K: "commit", N: r.Intn(5), Sync: true})
			if r.Chance(1, 5) { // the same state committed once more: nothing to save
				s.Ops = append(s.Ops, WOp{K: "commit", N: r.Intn(5), Sync: true})
			}
			for g := []int{0, 1, 2, 2}[r.Intn(4)]; g > 0; g-- {
				s.Ops = append(s.Ops, WOp{K: "gc"})
			}
			if r.Chance(1, 8) {
				s.Ops = append(s.Ops, WOp{K: "commit", N: r.Intn(5), Sync: true})
			}
			if r.Chance(1, 4) {
				s.Ops = append(s.Ops, WOp{K: "setroot", N: r.Intn(12)})
			}
			if r.Chance(1, 3) {
				s.Ops = append(s.Ops, WOp{K: "rollback", N: r.Intn(2)})
			}
		}
		return s
	}
	bulk := r.Chance(1, 120) // one commit that touches hundreds of keys (batch / buffer thresholds)
	if bulk {
		nKeys = 150 + r.Intn(300)
	}
	if prop == "C13" && (r.Chance(1, 8000) || os.Getenv("VERIF_FORCE_PROFILE") == "giant") {
		// ... or tens of thousands: a commit that stores more than 2^16 nodes, rolled back
		bulk = true
		nKeys = 28000 + r.Intn(6000)
		s.Huge = true // unique values: no stored node is shared, the per-update sharing bookkeeping is skipped
		s.Store = "simkv"
	}
	s.Keys = keyPool(r, nKeys)
	if bulk && r.Chance(1, 3) {
		// staircase: one spine key and, for every nibble position, a key that leaves the spine exactly there:
		// the spine key's path has a branch at each of its 64 levels (the longest proofs / deepest paths possible)
		spine := make([]byte, 32)
		for i := range spine {
			spine[i] = byte(r.U64())
		}
		s.Keys = []string{hex.EncodeToString(spine)}
		for pos := 0; pos < 64; pos++ {
			k := make([]byte, 32)
			for i := range k {
				k[i] = byte(r.U64())
			}
			copy(k, spine[:pos/2])
			if pos%2 == 0 {
				k[pos/2] = (spine[pos/2] ^ 0x10 ^ byte(r.Intn(14)+1)<<4&0xf0) | (k[pos/2] & 0x0f)
				if k[pos/2]>>4 == spine[pos/2]>>4 {
					k[pos/2] ^= 0x10
				}
			} else {
				k[pos/2] = spine[pos/2]&0xf0 | (spine[pos/2]&0x0f ^ byte(1+r.Intn(15)))
			}
			s.Keys = append(s.Keys, hex.EncodeToString(k))
		}
		nKeys = len(s.Keys)
	}
	// a small value domain makes identical (value, weight) pairs on different keys common
	small := r.Chance(1, 3)
	if prop != "C11" {
		small = r.Chance(1, 10)
	}
	if prop == "C12" || prop == "C10" {
		small = false // unique values: a foreign value is attributable, and no stored node is shared (see the GC known finding)
	}
	// twin subtrees: a product key pool whose values depend on the key's tail (1 in 8 runs of C09, C11, C13)
	var tailOf []int
	if !bulk && (prop == "C09" || prop == "C11" || prop == "C13") && r.Chance(1, 8) {
		s.Keys, tailOf = twinPool(r)
		nKeys = len(s.Keys)
	}
	n := 0
	wUpd, wDel, wReadd, wRoot, wCommit, wGC, wReload, wCrash, wSave, wRollback := 40, 18, 8, 5, 12, 8, 4, 0, 0, 0
	switch prop {
	case "C11":
		wCrash = 3
		wRoot = 8
	case "C13":
		wSave, wRollback, wReload = 6, 6, 1
		s.Store = "simkv"
	case "C10":
		wRoot, wGC, wCommit, wReload = 1, 0, 3, 1
	case "C12":
		wRoot, wGC = 2, 3
		if r.Chance(1, 6) {
			nOps = r.Intn(3) // nearly empty sources
		}
	}
	if bulk {
		if prop == "C13" {
			s.Ops = append(s.Ops, WOp{K: "upd", I: 0, V: genVal(r, 0, false)}, WOp{K: "commit", N: r.Intn(5), Sync: true}, WOp{K: "saveroot"})
		}
		for i := 0; i < nKeys; i++ {
			n++
			s.Ops = append(s.Ops, WOp{K: "upd", I: i, V: genVal(r, n, false)})
		}
		s.Ops = append(s.Ops, WOp{K: "commit", N: r.Intn(5), Sync: true})
		if r.Chance(1, 2) {
			s.Ops = append(s.Ops, WOp{K: "gc"})
		}
		if prop == "C13" {
			s.Ops = append(s.Ops, WOp{K: "rollback", N: r.Intn(2)})
		}
		nOps = 5 + r.Intn(15)
	}
	for i := 0; i < nOps; i++ {
		k := r.Weighted([]int{wUpd, wDel, wReadd, wRoot, wCommit, wGC, wReload, wCrash, wSave, wRollback})
		ki := r.Intn(len(s.Keys))
		switch k {
		case 0:
			n++
			v := genVal(r, n, small)
			if tailOf != nil && r.Chance(5, 6) {
				v = []byte{"abcdefg"[tailOf[ki]], "xy"[r.Intn(8)/7]} // a function of the tail, rarely a second version
			}
			s.Ops = append(s.Ops, WOp{K: "upd", I: ki, V: v, N: r.Intn(8)})
		case 1:
			s.Ops = append(s.Ops, WOp{K: "del", I: ki, N: r.Intn(2)})
		case 2:
			s.Ops = append(s.Ops, WOp{K: "readd", I: ki})
		case 3:
			s.Ops = append(s.Ops, WOp{K: "root"})
		case 4:
			s.Ops = append(s.Ops, WOp{K: "commit", N: r.Intn(5), Sync: r.Chance(3, 4), D: prop == "C11" && r.Chance(1, 2)})
			if r.Chance(2, 3) {
				s.Ops = append(s.Ops, WOp{K: "gc"})
			}
		case 5:
			s.Ops = append(s.Ops, WOp{K: "gc"})
		case 6:
			s.Ops = append(s.Ops, WOp{K: "reload", N: r.Intn(16)})
		case 7:
			s.Ops = append(s.Ops, WOp{K: "crash", N: r.Intn(1000)})
		case 8:
			s.Ops = append(s.Ops, WOp{K: "saveroot"})
		case 9:
			s.Ops = append(s.Ops, WOp{K: "rollback", N: r.Intn(2)})
		}
	}
	if prop == "C13" {
		// make sure the run ends with checkpoint -> changes -> commit -> [gc] -> rollback
		s.Ops = append(s.Ops, WOp{K: "commit", N: r.Intn(5), Sync: true})
		if r.Chance(1, 2) {
			s.Ops = append(s.Ops, WOp{K: "gc"})
		}
		s.Ops = append(s.Ops, WOp{K: "saveroot"})
		for j := 1 + r.Intn(6); j > 0; j-- {
			ki := r.Intn(len(s.Keys))
			switch r.Intn(4) {
			case 0:
				s.Ops = append(s.Ops, WOp{K: "del", I: ki, N: r.Intn(2)})
			case 1:
				s.Ops = append(s.Ops, WOp{K: "readd", I: ki})
			default:
				n++
				s.Ops = append(s.Ops, WOp{K: "upd", I: ki, V: genVal(r, n, small)})
			}
		}
		s.Ops = append(s.Ops, WOp{K: "commit", N: r.Intn(5), Sync: true})
		if r.Chance(1, 5) {
			s.Ops = append(s.Ops, WOp{K: "commit", N: r.Intn(5), Sync: true})
		}
		if r.Chance(1, 2) {
			s.Ops = append(s.Ops, WOp{K: "gc"})
		}
		s.Ops = append(s.Ops, WOp{K: "rollback", N: r.Intn(2)})
	} else if prop == "C10" {
		// sometimes a key owner stores a value that embeds the hash of a value node of their choosing
		var fake []byte
		if r.Chance(1, 6) && len(s.Keys) > 0 {
			n++
			fake = []byte(fmt.Sprintf("%cfake%d", byte(6+7*r.Intn(10)), n)) // first byte = 6 mod 7: the largest weight
			fh := refwmpt.ValueHash(refwmpt.Entry{Value: fake, Weight: weightOf(fake)})
			var v []byte
			if r.Chance(1, 2) {
				v = append(genVal(r, n, false), fh...)
				if r.Chance(1, 2) {
					// lengths that make the disguised short node's key exactly 256 or 512 bytes long (8 + len - 32)
					pad := bytes.Repeat([]byte{'k'}, []int{248, 504}[r.Intn(2)])
					pad[0] = byte('a' + r.Intn(20))
					v = append(pad, fh...)
				}
				if len(v) == 512 {
					v = append([]byte{'q'}, v...)
				}
			} else {
				v = append([]byte{}, fh...)
				for i := 1; i < 16; i++ {
					v = append(v, refwmpt.Empty...)
				}
			}
			s.Ops = append(s.Ops, WOp{K: "upd", I: r.Intn(len(s.Keys)), V: v})
		}
		// the prover is an in-memory trie or a trie reloaded from storage, not updated afterwards
		switch r.Intn(3) {
		case 0:
		case 1:
			s.Ops = append(s.Ops, WOp{K: "commit", N: r.Intn(5), Sync: true})
		default:
			s.Ops = append(s.Ops, WOp{K: "commit", N: r.Intn(5), Sync: true}, WOp{K: "reload", N: r.Intn(16)})
		}
		s.Ops = append(s.Ops, WOp{K: "prove", N: r.Intn(1 << 20)})
		kinds := []string{"reweight", "zero", "swaphash", "swapchild", "subst", "drop", "dup", "reorder", "trunc", "flip", "shortw", "valw", "block", "retype"}
		// swarm: a random subset of tamper kinds is enabled per run
		var enabled []string
		for _, k := range kinds {
			if r.Chance(1, 3) {
				enabled = append(enabled, k)
			}
		}
		if len(enabled) == 0 {
			enabled = []string{kinds[r.Intn(len(kinds))]}
		}
		for j := r.Intn(4); j > 0; j-- {
			s.Ops = append(s.Ops, WOp{K: "t." + enabled[r.Intn(len(enabled))], A: r.Intn(16), B: r.Intn(1 << 20)})
		}
		if fake != nil && r.Chance(3, 4) {
			s.Ops = append(s.Ops, WOp{K: "t.leafas", A: r.Intn(16), V: fake})
		}
		s.Ops = append(s.Ops, WOp{K: "verify"})
	} else if prop == "C12" {
		// source in memory (dirty or clean), collapsed, or reloaded
		switch r.Intn(4) {
		case 0:
		case 1:
			s.Ops = append(s.Ops, WOp{K: "commit", N: r.Intn(5), Sync: true})
		case 2:
			s.Ops = append(s.Ops, WOp{K: "commit", N: r.Intn(5), Sync: true}, WOp{K: "reload", N: r.Intn(16)})
		default:
			s.Ops = append(s.Ops, WOp{K: "commit", N: r.Intn(5), Sync: true}, WOp{K: "gc"})
		}
		nreq := []int{0, 1, 2, 3, 5, 9, 10, 11, 12, 16, 24}[r.Intn(11)]
		ex := WOp{K: "export"}
		if r.Chance(1, 5) {
			ex.A = 1 + r.Intn(12) // separate fault-injecting configuration: one storage read of the export fails
		}
		ex.B = r.Intn(8) // 1 and 5: export from a CopyRoot snapshot while the original moves on
		for j := 0; j < nreq; j++ {
			ex.S = append(ex.S, r.Intn(len(s.Keys)))
		}
		s.Ops = append(s.Ops, ex)
		for j := r.Intn(10); j > 0; j-- {
			if r.Chance(1, 3) {
				s.Ops = append(s.Ops, WOp{K: "mdel", I: r.Intn(64)})
			} else {
				n++
				s.Ops = append(s.Ops, WOp{K: "mupd", I: r.Intn(64), V: genVal(r, n, small)})
			}
		}
	} else {
		s.Ops = append(s.Ops, WOp{K: "commit", N: r.Intn(5), Sync: true})
		if r.Chance(1, 2) {
			s.Ops = append(s.Ops, WOp{K: "gc"}, WOp{K: "gc"})
		}
	}
	return s
}
