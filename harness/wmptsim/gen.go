package wmptsim

import (
	"encoding/hex"
	"fmt"

	"verif/harness/sim"
)

// keyPool builds 32-byte keys sharing prefixes of chosen nibble lengths.
func keyPool(r *sim.Rand, n int) []string {
	var pool [][]byte
	rnd := func() []byte {
		b := make([]byte, 32)
		for i := range b {
			b[i] = byte(r.U64())
		}
		return b
	}
	for len(pool) < n {
		if len(pool) == 0 || r.Chance(1, 4) {
			pool = append(pool, rnd())
			continue
		}
		q := pool[r.Intn(len(pool))]
		// share the first `nib` nibbles with q
		nib := []int{0, 1, 2, 3, 4, 8, 16, 31, 62, 63}[r.Intn(10)]
		if r.Chance(1, 3) {
			nib = r.Intn(64)
		}
		k := rnd()
		copy(k, q[:nib/2])
		if nib%2 == 1 {
			k[nib/2] = q[nib/2]&0xf0 | k[nib/2]&0x0f
			if k[nib/2] == q[nib/2] {
				k[nib/2] ^= 1
			}
		} else if nib/2 < 32 && k[nib/2]>>4 == q[nib/2]>>4 {
			k[nib/2] ^= 0x10
		}
		pool = append(pool, k)
	}
	seen := map[string]bool{}
	var out []string
	for _, k := range pool {
		h := hex.EncodeToString(k)
		if !seen[h] {
			seen[h] = true
			out = append(out, h)
		}
	}
	return out
}

func genVal(r *sim.Rand, n int, small bool) []byte {
	if small {
		return []byte{"abc"[r.Intn(3)]}
	}
	return []byte(fmt.Sprintf("%c%d", byte('a'+r.Intn(20)), n))
}

// Gen generates a script for C09, C11 or C13.
func Gen(prop string, r *sim.Rand, tier string) sim.Script {
	s := &WScript{Prop: prop, Store: "simkv"}
	if r.Chance(1, 12) {
		s.Store = "pebble"
	}
	nKeys := 1 + r.Intn(12)
	if r.Chance(1, 5) {
		nKeys = 1 + r.Intn(3)
	}
	nOps := 2 + r.Intn(40)
	if tier == "thorough" && r.Chance(1, 60) {
		nKeys = 20 + r.Intn(60)
		nOps = 100 + r.Intn(200)
	}
	s.Keys = keyPool(r, nKeys)
	// a small value domain makes identical (value, weight) pairs on different keys common
	small := r.Chance(1, 3)
	if prop != "C11" {
		small = r.Chance(1, 10)
	}
	n := 0
	wUpd, wDel, wReadd, wRoot, wCommit, wGC, wReload, wCrash, wSave, wRollback := 40, 18, 8, 5, 12, 8, 4, 0, 0, 0
	switch prop {
	case "C11":
		wCrash = 3
		wRoot = 8
	case "C13":
		wSave, wRollback, wReload = 6, 6, 1
		s.Store = "simkv"
	}
	for i := 0; i < nOps; i++ {
		k := r.Weighted([]int{wUpd, wDel, wReadd, wRoot, wCommit, wGC, wReload, wCrash, wSave, wRollback})
		ki := r.Intn(len(s.Keys))
		switch k {
		case 0:
			n++
			s.Ops = append(s.Ops, WOp{K: "upd", I: ki, V: genVal(r, n, small)})
		case 1:
			s.Ops = append(s.Ops, WOp{K: "del", I: ki, N: r.Intn(2)})
		case 2:
			s.Ops = append(s.Ops, WOp{K: "readd", I: ki})
		case 3:
			s.Ops = append(s.Ops, WOp{K: "root"})
		case 4:
			s.Ops = append(s.Ops, WOp{K: "commit", N: r.Intn(5), Sync: r.Chance(3, 4)})
			if r.Chance(2, 3) {
				s.Ops = append(s.Ops, WOp{K: "gc"})
			}
		case 5:
			s.Ops = append(s.Ops, WOp{K: "gc"})
		case 6:
			s.Ops = append(s.Ops, WOp{K: "reload"})
		case 7:
			s.Ops = append(s.Ops, WOp{K: "crash", N: r.Intn(1000)})
		case 8:
			s.Ops = append(s.Ops, WOp{K: "saveroot"})
		case 9:
			s.Ops = append(s.Ops, WOp{K: "rollback", N: r.Intn(2)})
		}
	}
	if prop == "C13" {
		// make sure the run ends with checkpoint -> changes -> commit -> [gc] -> rollback
		s.Ops = append(s.Ops, WOp{K: "commit", N: r.Intn(5), Sync: true})
		if r.Chance(1, 2) {
			s.Ops = append(s.Ops, WOp{K: "gc"})
		}
		s.Ops = append(s.Ops, WOp{K: "saveroot"})
		for j := 1 + r.Intn(6); j > 0; j-- {
			ki := r.Intn(len(s.Keys))
			switch r.Intn(4) {
			case 0:
				s.Ops = append(s.Ops, WOp{K: "del", I: ki, N: r.Intn(2)})
			case 1:
				s.Ops = append(s.Ops, WOp{K: "readd", I: ki})
			default:
				n++
				s.Ops = append(s.Ops, WOp{K: "upd", I: ki, V: genVal(r, n, small)})
			}
		}
		s.Ops = append(s.Ops, WOp{K: "commit", N: r.Intn(5), Sync: true})
		if r.Chance(1, 2) {
			s.Ops = append(s.Ops, WOp{K: "gc"})
		}
		s.Ops = append(s.Ops, WOp{K: "rollback", N: r.Intn(2)})
	} else {
		s.Ops = append(s.Ops, WOp{K: "commit", N: r.Intn(5), Sync: true})
		if r.Chance(1, 2) {
			s.Ops = append(s.Ops, WOp{K: "gc"}, WOp{K: "gc"})
		}
	}
	return s
}
