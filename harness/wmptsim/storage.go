package wmptsim

import (
	"encoding/binary"
	"fmt"

	"github.com/0chain/common/core/util/storage/kv"
	"github.com/0chain/common/core/util/wmpt"
	"github.com/cockroachdb/pebble"
	"github.com/cockroachdb/pebble/vfs"
	"github.com/fxamacker/cbor/v2"
)

// childRefs decodes a stored node (independently of wmpt.DeserializeNode, with
// bounds checks) and returns the hashes it references.
func childRefs(raw []byte) ([][]byte, error) {
	var p wmpt.PersistNodeBase
	if err := cbor.Unmarshal(raw, &p); err != nil {
		return nil, err
	}
	switch {
	case p.Branch != nil:
		var out [][]byte
		for _, c := range p.Branch.Children {
			if len(c) == 0 {
				continue
			}
			if len(c) < 40 {
				return nil, fmt.Errorf("short child blob (%d bytes)", len(c))
			}
			out = append(out, c[:32])
		}
		return out, nil
	case p.Short != nil:
		if len(p.Short.Value) != 40 {
			return nil, fmt.Errorf("short node value blob of %d bytes", len(p.Short.Value))
		}
		return [][]byte{p.Short.Value[:32]}, nil
	case p.Value != nil, p.NilNode != nil:
		return nil, nil
	case p.HashNode != nil:
		return [][]byte{p.HashNode.Hash}, nil
	}
	return nil, fmt.Errorf("empty node")
}

func be64(b []byte) uint64 { return binary.BigEndian.Uint64(b) }

// pebbleEnv: the real kv.PebbleAdapter on pebble's crash-simulating in-memory FS.
type pebbleEnv struct {
	fs      *vfs.MemFS
	adapter *kv.PebbleAdapter
}

type quiet struct{}

func (quiet) Infof(string, ...interface{})      {}
func (quiet) Errorf(string, ...interface{})     {}
func (quiet) Fatalf(f string, a ...interface{}) { panic(fmt.Sprintf("pebble fatal: "+f, a...)) }

func pebbleOpts(fs vfs.FS) *pebble.Options {
	return &pebble.Options{FS: fs, Logger: quiet{}, MaxConcurrentCompactions: func() int { return 1 }, DisableAutomaticCompactions: true}
}

func newPebbleEnv() *pebbleEnv {
	fs := vfs.NewStrictMem()
	if err := fs.MkdirAll("/db", 0755); err != nil {
		panic(err)
	}
	if d, err := fs.OpenDir("/"); err == nil {
		d.Sync()
		d.Close()
	}
	a, err := kv.NewPebbleAdapter("/db", pebbleOpts(fs))
	if err != nil {
		panic(err)
	}
	return &pebbleEnv{fs: fs, adapter: a}
}

// powerLoss drops everything that was not synced and reopens the database.
func (p *pebbleEnv) powerLoss() error {
	p.fs.SetIgnoreSyncs(true)
	p.adapter.Close()
	p.fs.ResetToSyncedState()
	p.fs.SetIgnoreSyncs(false)
	a, err := kv.NewPebbleAdapter("/db", pebbleOpts(p.fs))
	if err != nil {
		return err
	}
	p.adapter = a
	return nil
}

// restart closes the database cleanly (the memtable is flushed) and opens it again; nothing is lost.
func (p *pebbleEnv) restart() error {
	p.adapter.Close()
	a, err := kv.NewPebbleAdapter("/db", pebbleOpts(p.fs))
	if err != nil {
		return err
	}
	p.adapter = a
	return nil
}

func (p *pebbleEnv) close() {
	defer func() { recover() }()
	p.adapter.Close()
}
