// Package cachesim simulates block trees over the real statecache package
// (StateCache, BlockCache, TransactionCache, QueryBlockCache) and checks every
// lookup against a reference model of the block tree (C06, C07; C08 adds a
// seeded task scheduler on an instrumented copy).
package cachesim

import (
	"bytes"
	"container/list"
	"encoding/json"
	"fmt"

	"github.com/0chain/common/core/statecache"
	"github.com/0chain/common/core/util"

	"verif/harness/sim"
)

// Op is one step of a cache script.
type Op struct {
	K string `json:"k"`
	B int    `json:"b,omitempty"` // block index
	T int    `json:"t,omitempty"` // transaction cache index
	P int    `json:"p,omitempty"` // parent block index (-1: unknown hash)
	Y string `json:"y,omitempty"` // cache key
	V string `json:"v,omitempty"` // value
	N int    `json:"n,omitempty"`
}

// Script describes one run.
type Script struct {
	Prop   string `json:"prop"`
	Values string `json:"values"` // "bytes" | "nodes": mutable byte values or real trie nodes
	Ops    []Op   `json:"ops"`
	// C08: tasks and schedule (see sched.go)
	Tasks     [][]Op `json:"tasks,omitempty"`
	Schedule  []int  `json:"schedule,omitempty"`
	Strategy  string `json:"strategy,omitempty"`
	SchedSeed uint64 `json:"sched_seed,omitempty"`
	Names     string `json:"names,omitempty"`    // "ambig": block hashes q^(i mod 4) z (i div 4), see Gen
	Scribble  bool   `json:"scribble,omitempty"` // C08: readers edit every value a hit returned (after recording it)
}

func (s *Script) Len() int {
	n := len(s.Ops)
	for _, t := range s.Tasks {
		n += len(t)
	}
	return n + len(s.Schedule)
}

func (s *Script) Without(drop []int) sim.Script {
	d := map[int]bool{}
	for _, i := range drop {
		d[i] = true
	}
	c := *s
	c.Ops = nil
	c.Tasks = nil
	c.Schedule = nil
	idx := 0
	for _, o := range s.Ops {
		if !d[idx] {
			c.Ops = append(c.Ops, o)
		}
		idx++
	}
	for _, t := range s.Tasks {
		var nt []Op
		for _, o := range t {
			if !d[idx] {
				nt = append(nt, o)
			}
			idx++
		}
		c.Tasks = append(c.Tasks, nt)
	}
	for _, x := range s.Schedule {
		if !d[idx] {
			c.Schedule = append(c.Schedule, x)
		}
		idx++
	}
	return &c
}

func (s *Script) Simpler() []sim.Script {
	var out []sim.Script
	if s.Values != "bytes" {
		c := *s
		c.Values = "bytes"
		out = append(out, &c)
	}
	if len(s.Schedule) > 0 {
		// fewer context switches: make a schedule entry equal to its predecessor
		for i := 1; i < len(s.Schedule); i++ {
			if s.Schedule[i] != s.Schedule[i-1] {
				c := *s
				c.Schedule = append([]int{}, s.Schedule...)
				c.Schedule[i] = c.Schedule[i-1]
				out = append(out, &c)
				if len(out) > 40 {
					break
				}
			}
		}
	}
	return out
}

func Decode(b []byte) (sim.Script, error) {
	s := &Script{}
	if err := json.Unmarshal(b, s); err != nil {
		return nil, err
	}
	return s, nil
}

// ---------------------------------------------------------------- values

// MutVal is a mutable cache value.
type MutVal struct{ B []byte }

func (m *MutVal) Clone() statecache.Value { return &MutVal{B: append([]byte{}, m.B...)} }
func (m *MutVal) CopyFrom(v interface{}) bool {
	o, ok := v.(*MutVal)
	if !ok {
		return false
	}
	m.B = append([]byte{}, o.B...)
	return true
}

// mkValue builds a cache value carrying payload v and returns it with its canonical rendering.
func mkValue(kind string, v string, n int) (statecache.Value, string) {
	if kind == "string" {
		// the package's own immutable value type: equal by value, so two writes of the same text are ==
		return statecache.String(v), "string:" + v
	}
	if kind != "nodes" {
		return &MutVal{B: []byte(v)}, "bytes:" + v
	}
	val := &util.SecureSerializableValue{Buffer: []byte(v)}
	var node util.Node
	switch n % 3 {
	case 0:
		node = util.NewLeafNode(util.Path("0a"), util.Path("1b2c"), util.Sequence(1+n%5), val)
	case 1:
		f := util.NewFullNode(val)
		f.PutChild('3', bytes.Repeat([]byte{byte(n)}, 32))
		f.PutChild('e', bytes.Repeat([]byte{byte(n + 1)}, 32))
		f.SetOrigin(util.Sequence(1 + n%5))
		node = f
	default:
		e := util.NewExtensionNode(util.Path("abc"+v[:1]), bytes.Repeat([]byte{byte(n + 2)}, 32))
		e.SetOrigin(util.Sequence(1 + n%5))
		node = e
	}
	return node, "node:" + string(node.Encode())
}

// render gives the canonical rendering of a value received from the cache.
func render(v statecache.Value) string {
	switch x := v.(type) {
	case *MutVal:
		return "bytes:" + string(x.B)
	case statecache.String:
		return "string:" + string(x)
	case util.Node:
		return "node:" + string(x.Encode())
	case nil:
		return "<nil>"
	}
	return fmt.Sprintf("<%T>", v)
}

// scribble mutates a value in place (what a careless caller might do).
func scribble(v statecache.Value) {
	switch x := v.(type) {
	case *MutVal:
		for i := range x.B {
			x.B[i] ^= 0x5a
		}
		x.B = append(x.B, '!')
	case *util.LeafNode:
		for i := range x.Path {
			x.Path[i] = 'f'
		}
		for i := range x.Prefix {
			x.Prefix[i] = 'f'
		}
		if sv, ok := x.GetValue().(*util.SecureSerializableValue); ok {
			for i := range sv.Buffer {
				sv.Buffer[i] ^= 0x5a
			}
		}
		x.SetValue(&util.SecureSerializableValue{Buffer: []byte("scribbled")})
		x.SetOrigin(99)
	case *util.FullNode:
		for _, c := range x.Children {
			for i := range c {
				c[i] ^= 0xff
			}
		}
		if sv, ok := x.GetValue().(*util.SecureSerializableValue); ok {
			for i := range sv.Buffer {
				sv.Buffer[i] ^= 0x5a
			}
		}
		x.PutChild('0', bytes.Repeat([]byte{7}, 32))
		x.SetValue(&util.SecureSerializableValue{Buffer: []byte("scribbled")})
		x.SetOrigin(99)
	case *util.ExtensionNode:
		for i := range x.Path {
			x.Path[i] = 'f'
		}
		for i := range x.NodeKey {
			x.NodeKey[i] ^= 0xff
		}
		x.SetOrigin(99)
	}
}

// ---------------------------------------------------------------- reference model

type entry struct {
	val     string // canonical rendering
	deleted bool
	seq     int    // how many versions of the key had been added to the state cache when this one was
	at      string // hash of the block holding the entry (set by chain)
}

type mblock struct {
	hash      string
	prev      string
	round     int64
	committed bool
	abandoned bool
	pre       map[string]entry // block-level uncommitted
	writes    map[string]entry // frozen at commit
	bc        *statecache.BlockCache
	index     int
	planned   map[string]entry // C08: what the block will have written once committed
	twinOf    *mblock          // a second BlockCache object for the hash of an already committed block (a re-executed block)
}

type mtxn struct {
	block     int
	m         map[string]entry
	tc        *statecache.TransactionCache
	committed bool
	query     bool // over a QueryBlockCache: never committed
	qhash     string
}

type model struct {
	blocks []*mblock
	byHash map[string]*mblock
	txns   []*mtxn
	// per key: number of versions (block hashes incl. memoised ones) ever added, for the eviction predicate
	versionsAdded map[string]int
	memo          map[string]bool  // key|block already memoised
	vers          map[string]*mlru // per key: block hashes held by the per-key LRU (capacity replica, see mlru)
	links         *mlru            // block hashes whose ancestor link is held
}

// mlru models a least-recently-used set with the documented semantics of the
// cache's LRU maps (Get refreshes, Add refreshes or inserts and evicts the least
// recently used entry beyond the capacity).  It is used ONLY to decide whether
// the right version of a key can have been evicted, i.e. to tell the listed
// capacity finding from any other wrong value.
type mlru struct {
	cap   int
	l     *list.List
	items map[string]*list.Element
}

func newLRU(cap int) *mlru { return &mlru{cap: cap, l: list.New(), items: map[string]*list.Element{}} }
func (c *mlru) Get(k string) bool {
	if e, ok := c.items[k]; ok {
		c.l.MoveToFront(e)
		return true
	}
	return false
}
func (c *mlru) Has(k string) bool { _, ok := c.items[k]; return ok }
func (c *mlru) Add(k string) (evicted bool) {
	if e, ok := c.items[k]; ok {
		c.l.MoveToFront(e)
		return false
	}
	c.items[k] = c.l.PushFront(k)
	if c.l.Len() > c.cap {
		last := c.l.Back()
		c.l.Remove(last)
		delete(c.items, last.Value.(string))
		return true
	}
	return false
}

// chain returns the expected entry for key starting the walk at block hash h
// (inclusive): the first entry among committed blocks along prev links; ok is
// false when the walk meets an uncommitted or unknown block before an entry.
func (m *model) chain(key, h string) (e entry, depth int, ok bool) {
	for depth = 0; depth < 5000; depth++ {
		b := m.byHash[h]
		if b == nil || !b.committed {
			return entry{}, depth, false
		}
		if x, has := b.writes[key]; has {
			x.at = b.hash
			return x, depth, true
		}
		h = b.prev
	}
	return entry{}, depth, false
}

// touch replays the LRU accesses of one state lookup at block h on the capacity replica.
func (m *model) touch(key, h string) {
	v := m.vers[key]
	if v == nil {
		return
	}
	if v.Get(h) {
		return
	}
	orig := h
	for count := 1; ; count++ {
		if !m.links.Get(h) {
			return
		}
		b := m.byHash[h]
		if b == nil {
			return
		}
		h = b.prev
		if v.Get(h) {
			v.Add(orig)
			return
		}
		if count >= 2000 {
			return
		}
	}
}
