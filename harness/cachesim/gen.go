package cachesim

import (
	"fmt"
	"strings"

	"verif/harness/sim"
)

// Gen generates a sequential block-tree script (C06, C07).
func Gen(prop string, r *sim.Rand, tier string) sim.Script {
	sc := gen0(prop, r, tier)
	// options added later are drawn last
	if s, ok := sc.(*Script); ok && len(s.Ops) < 4000 && r.Chance(1, 8) {
		// names that are ambiguous when concatenated: keys k, kq, kqq and block hashes z0, qz0, qqz0, qqqz0, z1, ...
		// ("k"+"qz0" == "kq"+"z0"): keys and block hashes are free-form strings
		s.Names = "ambig"
		for i := range s.Ops {
			if y := s.Ops[i].Y; len(y) > 1 && y[0] == 'k' {
				n := 0
				fmt.Sscanf(y[1:], "%d", &n)
				s.Ops[i].Y = "k" + strings.Repeat("q", n%3)
			}
		}
	}
	return sc
}

func gen0(prop string, r *sim.Rand, tier string) sim.Script {
	s := &Script{Prop: prop, Values: "bytes"}
	if prop == "C07" && r.Chance(1, 2) {
		s.Values = "nodes"
	} else if r.Chance(1, 5) {
		s.Values = "string"
	}
	// mostly every write has its own value (a wrong hit is attributable to one write); sometimes a domain of
	// three values, so that blocks rewrite the value their parent already has
	smallDom := r.Chance(1, 8)
	vstr := func(n int) string {
		if smallDom {
			return fmt.Sprintf("v%d", r.Intn(3))
		}
		return fmt.Sprintf("v%d", n)
	}
	nKeys := 1 + r.Intn(4)
	nOps := 5 + r.Intn(60)
	long := tier == "thorough" && prop == "C06" && r.Chance(1, 400)
	if prop == "C06" && r.Chance(1, 40) {
		long = true
	}
	if long {
		return genLong(prop, r)
	}
	if r.Chance(1, 250) {
		return genBigBlock(prop, r)
	}
	if r.Chance(1, 25) {
		return genDeep(prop, r)
	}
	key := func() string { return fmt.Sprintf("k%d", r.Intn(nKeys)) }
	nb, nt, nv := 0, 0, 0
	var openBlocks []int // uncommitted
	parentOf := map[int]int{}
	newBlock := func() {
		p := -1
		if nb > 0 && !r.Chance(1, 8) {
			// mostly extend recent blocks (chains), sometimes fork from older ones
			if r.Chance(2, 3) {
				p = nb - 1 - r.Intn(min(3, nb))
			} else {
				p = r.Intn(nb)
			}
		}
		s.Ops = append(s.Ops, Op{K: "blk", P: p})
		parentOf[nb] = p
		openBlocks = append(openBlocks, nb)
		nb++
	}
	newBlock()
	var txnBlock []int
	for i := 0; i < nOps; i++ {
		switch r.Weighted([]int{8, 8, 22, 6, 12, 8, 5, 6, 12, 14, 2, 1, 3, 2}) {
		case 13:
			if nb > 0 {
				s.Ops = append(s.Ops, Op{K: "twin", B: r.Intn(nb)})
				parentOf[nb] = -1
				openBlocks = append(openBlocks, nb)
				nb++
			}
		case 0:
			newBlock()
		case 1:
			if len(openBlocks) > 0 {
				b := openBlocks[r.Intn(len(openBlocks))]
				s.Ops = append(s.Ops, Op{K: "txn", B: b})
				txnBlock = append(txnBlock, b)
				nt++
			}
		case 2:
			if nt > 0 {
				nv++
				s.Ops = append(s.Ops, Op{K: "tset", T: r.Intn(nt), Y: key(), V: vstr(nv)})
			}
		case 3:
			if nt > 0 {
				s.Ops = append(s.Ops, Op{K: "trem", T: r.Intn(nt), Y: key()})
			}
		case 4:
			if nt > 0 {
				s.Ops = append(s.Ops, Op{K: "tget", T: r.Intn(nt), Y: key()})
			}
		case 5:
			if nt > 0 {
				s.Ops = append(s.Ops, Op{K: "tcommit", T: r.Intn(nt)})
			}
		case 6:
			if len(openBlocks) > 0 {
				nv++
				s.Ops = append(s.Ops, Op{K: "bset", B: openBlocks[r.Intn(len(openBlocks))], Y: key(), V: vstr(nv)})
			}
		case 7:
			if len(openBlocks) > 0 {
				s.Ops = append(s.Ops, Op{K: "bget", B: openBlocks[r.Intn(len(openBlocks))], Y: key()})
			}
		case 8:
			if len(openBlocks) > 0 {
				// commit: mostly oldest first, sometimes any (child before parent), sometimes an already committed one
				i := 0
				if r.Chance(1, 3) {
					i = r.Intn(len(openBlocks))
				}
				b := openBlocks[i]
				if r.Chance(1, 12) && nb > 0 {
					s.Ops = append(s.Ops, Op{K: "bcommit", B: r.Intn(nb)})
					break
				}
				s.Ops = append(s.Ops, Op{K: "bcommit", B: b})
				openBlocks = append(openBlocks[:i], openBlocks[i+1:]...)
			}
		case 9:
			k := "sget"
			if r.Chance(1, 3) {
				k = "qget"
			}
			b := r.Intn(nb + 1) // nb = unknown block
			s.Ops = append(s.Ops, Op{K: k, B: b, Y: key()})
		case 10:
			if len(openBlocks) > 0 {
				s.Ops = append(s.Ops, Op{K: "sethash", B: openBlocks[r.Intn(len(openBlocks))], N: r.Intn(100)})
			}
		case 11:
			s.Ops = append(s.Ops, Op{K: "scremove", Y: key()})
		case 12:
			s.Ops = append(s.Ops, Op{K: "qtxn", B: r.Intn(nb)})
			txnBlock = append(txnBlock, -1)
			nt++
		}
	}
	// final sweep of lookups everywhere
	for b := 0; b < nb; b++ {
		for k := 0; k < nKeys; k++ {
			if r.Chance(1, 2) {
				s.Ops = append(s.Ops, Op{K: "sget", B: b, Y: fmt.Sprintf("k%d", k)})
			}
		}
	}
	return s
}

func min(a, b int) int {
	if a < b {
		return a
	}
	return b
}

// genLong: long chains that exceed the real capacities (200 versions per key,
// 2000 ancestor links) with reads at old blocks that refresh their recency.
func genLong(prop string, r *sim.Rand) sim.Script {
	s := &Script{Prop: prop, Values: []string{"bytes", "bytes", "string"}[r.Intn(3)]}
	n := 230 + r.Intn(120)
	if r.Chance(1, 6) {
		n = 2050 + r.Intn(200)
	}
	nKeys := 1 + r.Intn(2)
	writeEvery := 1 + r.Intn(2)
	hot := r.Intn(20) // an old block that is read again and again
	smallDom := r.Chance(1, 3)
	nv, nt := 0, 0
	val := func() string {
		nv++
		if smallDom {
			return fmt.Sprintf("v%d", r.Intn(3))
		}
		return fmt.Sprintf("v%d", nv)
	}
	for b := 0; b < n; b++ {
		s.Ops = append(s.Ops, Op{K: "blk", P: b - 1})
		if b%writeEvery == 0 {
			k := fmt.Sprintf("k%d", r.Intn(nKeys))
			switch r.Intn(8) {
			case 0: // written and removed again by one transaction
				s.Ops = append(s.Ops, Op{K: "txn", B: b}, Op{K: "tset", T: nt, Y: k, V: val()}, Op{K: "trem", T: nt, Y: k}, Op{K: "tcommit", T: nt})
				nt++
			case 1:
				s.Ops = append(s.Ops, Op{K: "txn", B: b}, Op{K: "trem", T: nt, Y: k}, Op{K: "tcommit", T: nt})
				nt++
			case 2, 3:
				s.Ops = append(s.Ops, Op{K: "txn", B: b}, Op{K: "tset", T: nt, Y: k, V: val()}, Op{K: "tcommit", T: nt})
				nt++
			default:
				s.Ops = append(s.Ops, Op{K: "bset", B: b, Y: k, V: val()})
			}
		}
		s.Ops = append(s.Ops, Op{K: "bcommit", B: b})
		if b > hot && r.Chance(1, 3) {
			s.Ops = append(s.Ops, Op{K: "sget", B: hot, Y: "k0"})
		}
		if r.Chance(1, 10) {
			s.Ops = append(s.Ops, Op{K: "sget", B: r.Intn(b + 1), Y: fmt.Sprintf("k%d", r.Intn(nKeys))})
		}
		if r.Chance(1, 6) { // at the tip, where no version can have been evicted yet
			s.Ops = append(s.Ops, Op{K: []string{"sget", "qget"}[r.Intn(2)], B: b, Y: fmt.Sprintf("k%d", r.Intn(nKeys))})
		}
	}
	for i := 0; i < 60; i++ {
		s.Ops = append(s.Ops, Op{K: "sget", B: r.Intn(n), Y: fmt.Sprintf("k%d", r.Intn(nKeys))})
	}
	return s
}

// genDeep: a deep chain on which keys are written or removed only now and then, so that lookups walk
// dozens of links back (to values and to tombstones), repeated at the same block and at its descendants,
// through the state cache, query caches, block caches and transaction caches.
func genDeep(prop string, r *sim.Rand) sim.Script {
	s := &Script{Prop: prop, Values: "bytes"}
	if prop == "C07" && r.Chance(1, 2) {
		s.Values = "nodes"
	}
	n := 22 + r.Intn(40)
	if r.Chance(1, 5) {
		n = 60 + r.Intn(130)
	}
	nKeys := 1 + r.Intn(3)
	key := func() string { return fmt.Sprintf("k%d", r.Intn(nKeys)) }
	every := 8 + r.Intn(40) // a key changes about once in this many blocks
	nv, nt := 0, 0
	look := func(b int) {
		k := key()
		for i := 1 + r.Intn(3); i > 0; i-- {
			switch r.Intn(4) {
			case 0:
				s.Ops = append(s.Ops, Op{K: "sget", B: b, Y: k})
			case 1:
				s.Ops = append(s.Ops, Op{K: "qget", B: b, Y: k})
			case 2:
				s.Ops = append(s.Ops, Op{K: "qtxn", B: b}, Op{K: "tget", T: nt, Y: k})
				nt++
			case 3:
				s.Ops = append(s.Ops, Op{K: "bget", B: b, Y: k})
			}
		}
	}
	for b := 0; b < n; b++ {
		s.Ops = append(s.Ops, Op{K: "blk", P: b - 1})
		if b == 0 || r.Chance(1, every) {
			for c := 1 + r.Intn(2); c > 0; c-- {
				k := key()
				switch r.Intn(5) {
				case 0:
					nv++
					s.Ops = append(s.Ops, Op{K: "bset", B: b, Y: k, V: fmt.Sprintf("v%d", nv)})
				case 1, 2:
					nv++
					s.Ops = append(s.Ops, Op{K: "txn", B: b}, Op{K: "tset", T: nt, Y: k, V: fmt.Sprintf("v%d", nv)}, Op{K: "tcommit", T: nt})
					nt++
				case 3:
					s.Ops = append(s.Ops, Op{K: "txn", B: b}, Op{K: "trem", T: nt, Y: k}, Op{K: "tcommit", T: nt})
					nt++
				case 4:
					nv++
					s.Ops = append(s.Ops, Op{K: "txn", B: b}, Op{K: "tset", T: nt, Y: k, V: fmt.Sprintf("v%d", nv)}, Op{K: "trem", T: nt, Y: k}, Op{K: "tcommit", T: nt})
					nt++
				}
			}
		}
		if r.Chance(1, 6) {
			look(b) // through the uncommitted block
		}
		s.Ops = append(s.Ops, Op{K: "bcommit", B: b})
		if r.Chance(1, 5) {
			look(b)
		}
		if b > 0 && r.Chance(1, 10) {
			look(r.Intn(b))
		}
	}
	for i := 0; i < 6; i++ {
		look(n - 1 - r.Intn(3))
	}
	return s
}

// GenSched generates a C08 script: a block tree prepared sequentially (every
// block writes at most one key, so no map iteration order is observable), then
// 2-5 tasks (committers and readers) for the seeded scheduler.
func GenSched(r *sim.Rand, tier string) sim.Script {
	s := &Script{Prop: "C08", Values: "bytes", Scribble: r.Chance(1, 2)}
	nKeys := 1 + r.Intn(3)
	nv := 0
	// hot-key prefix: a committed chain in which every block wrote k0, as long as the per-key version table
	// (200 entries) so that the table is full when the concurrent phase starts. All lookups of the concurrent
	// phase are at blocks near the tip, whose versions are the most recent ones of the table.
	base := 0
	if r.Chance(1, 9) {
		base = 200 + r.Intn(16)
		if r.Chance(1, 2) {
			nKeys = 1 // everything of the concurrent phase is about the hot key
		}
		for b := 0; b < base; b++ {
			nv++
			s.Ops = append(s.Ops, Op{K: "blk", P: b - 1}, Op{K: "bset", B: b, Y: "k0", V: fmt.Sprintf("v%d", nv)}, Op{K: "bcommit", B: b})
		}
	}
	if base == 0 && r.Chance(1, 100) {
		// deep prefix: a committed chain longer than the walk bound (2000 links) in which only the first block wrote
		// k0: lookups of k0 near the tip walk the whole bound and give up
		base = 2001 + r.Intn(8)
		nKeys = 1
		for b := 0; b < base; b++ {
			s.Ops = append(s.Ops, Op{K: "blk", P: b - 1})
			if b == 0 {
				nv++
				s.Ops = append(s.Ops, Op{K: "bset", B: b, Y: "k0", V: fmt.Sprintf("v%d", nv)})
			}
			s.Ops = append(s.Ops, Op{K: "bcommit", B: b})
		}
	}
	near := func(n int) int { // a block of the concurrent part, or one of the last blocks of the prefix
		if base > 0 && r.Chance(1, 4) {
			return base - 1 - r.Intn(3)
		}
		return base + r.Intn(n)
	}
	nb := 3 + r.Intn(5)
	for b := 0; b < nb; b++ {
		p := base + b - 1
		if b > 1 && r.Chance(1, 4) {
			p = base + r.Intn(b) // fork
		}
		s.Ops = append(s.Ops, Op{K: "blk", P: p})
		if r.Chance(2, 3) {
			nv++
			s.Ops = append(s.Ops, Op{K: "bset", B: base + b, Y: fmt.Sprintf("k%d", r.Intn(nKeys)), V: fmt.Sprintf("v%d", nv)})
		}
	}
	// commit a prefix sequentially - or (1 in 3) any subset in any order, so that the concurrent phase starts with
	// committed blocks whose parents are not committed yet
	pre := r.Intn(nb)
	committed := map[int]bool{}
	if r.Chance(1, 3) || (base > 0 && r.Chance(1, 3)) {
		for _, b := range r.Perm(nb) {
			if r.Chance(1, 2) {
				committed[b] = true
				s.Ops = append(s.Ops, Op{K: "bcommit", B: base + b})
			}
		}
		pre = 0
		for committed[pre] {
			pre++
		}
	} else {
		for b := 0; b < pre; b++ {
			committed[b] = true
			s.Ops = append(s.Ops, Op{K: "bcommit", B: base + b})
		}
	}
	if pre > 0 && r.Chance(1, 3) {
		// warm-up reads (memoisation happened before the concurrent phase)
		for i := 0; i < 1+r.Intn(3); i++ {
			s.Ops = append(s.Ops, Op{K: "sget", B: base + r.Intn(pre), Y: fmt.Sprintf("k%d", r.Intn(nKeys))})
		}
	}
	var uncommitted []int
	for b := 0; b < nb; b++ {
		if !committed[b] {
			uncommitted = append(uncommitted, base+b)
		}
	}
	nTasks := 2 + r.Intn(4)
	nCommitters := 1 + r.Intn(2)
	if nCommitters >= nTasks {
		nCommitters = nTasks - 1
	}
	for t := 0; t < nTasks; t++ {
		var ops []Op
		if t < nCommitters && len(uncommitted) > 0 {
			for c := 1 + r.Intn(2); c > 0; c-- {
				// mostly oldest first; sometimes any (child before parent, same block by two tasks)
				b := uncommitted[0]
				if r.Chance(1, 3) {
					b = uncommitted[r.Intn(len(uncommitted))]
				}
				ops = append(ops, Op{K: "bcommit", B: b})
				if r.Chance(2, 3) && len(uncommitted) > 1 {
					uncommitted = uncommitted[1:]
				}
			}
			if r.Chance(1, 2) {
				ops = append(ops, Op{K: "sget", B: near(nb), Y: fmt.Sprintf("k%d", r.Intn(nKeys))})
			}
		} else {
			for c := 1 + r.Intn(5); c > 0; c-- {
				k := []string{"sget", "sget", "qget", "bget", "sget", "qget", "bget", "bgetc"}[r.Intn(8)]
				ops = append(ops, Op{K: k, B: near(nb), Y: fmt.Sprintf("k%d", r.Intn(nKeys))})
			}
		}
		s.Tasks = append(s.Tasks, ops)
	}
	if r.Chance(1, 3) && len(s.Tasks) >= 2 {
		// a transaction on a block of its own (nobody else touches that block): one task commits the transaction
		// while others look its keys up through the same transaction cache
		xb := base + nb
		s.Ops = append(s.Ops, Op{K: "blk", P: base + nb - 1}, Op{K: "txn", B: xb})
		var keys []string
		for i := 1 + r.Intn(3); i > 0; i-- {
			k := fmt.Sprintf("k%d", r.Intn(nKeys))
			keys = append(keys, k)
			nv++
			if r.Chance(1, 4) {
				s.Ops = append(s.Ops, Op{K: "tset", T: 0, Y: k, V: fmt.Sprintf("v%d", nv)}, Op{K: "trem", T: 0, Y: k})
			} else {
				s.Ops = append(s.Ops, Op{K: "tset", T: 0, Y: k, V: fmt.Sprintf("v%d", nv)})
			}
		}
		ct := r.Intn(len(s.Tasks))
		at := r.Intn(len(s.Tasks[ct]) + 1)
		s.Tasks[ct] = append(append(append([]Op{}, s.Tasks[ct][:at]...), Op{K: "tcommit", T: 0}), s.Tasks[ct][at:]...)
		for t := range s.Tasks {
			if t == ct && len(s.Tasks) > 1 {
				continue
			}
			for i := 1 + r.Intn(3); i > 0; i-- {
				at := r.Intn(len(s.Tasks[t]) + 1)
				s.Tasks[t] = append(append(append([]Op{}, s.Tasks[t][:at]...), Op{K: "tget", T: 0, Y: keys[r.Intn(len(keys))]}), s.Tasks[t][at:]...)
			}
		}
	}
	s.Strategy = []string{"rw", "rw", "pct", "rub", "stall"}[r.Intn(5)]
	s.SchedSeed = r.U64()
	return s
}

// genBigBlock: one block writes a very large number of keys (sizes on a log scale up to beyond the
// key table's capacity) on top of a parent that wrote some of them; late writes and removals in the
// big block must still win over the parent's versions.
func genBigBlock(prop string, r *sim.Rand) sim.Script {
	s := &Script{Prop: prop, Values: "bytes"}
	// below the key capacity of the state cache (100*1024): beyond it, which keys an overfull commit evicts follows the
	// iteration order of a Go map inside the code under test, and such a run would not be a function of its script
	m := []int{300, 3000, 12000, 40000, 100000}[r.Intn(5)]
	nv := 0
	val := func() string { nv++; return fmt.Sprintf("v%d", nv) }
	s.Ops = append(s.Ops, Op{K: "blk", P: -1})
	for i := 0; i < 4; i++ {
		s.Ops = append(s.Ops, Op{K: "bset", B: 0, Y: fmt.Sprintf("k%d", i), V: val()})
	}
	s.Ops = append(s.Ops, Op{K: "bcommit", B: 0}, Op{K: "blk", P: 0}, Op{K: "txn", B: 1})
	for i := 0; i < m; i++ {
		if r.Chance(1, 2) {
			s.Ops = append(s.Ops, Op{K: "bset", B: 1, Y: fmt.Sprintf("f%d", i), V: "f"})
		} else {
			s.Ops = append(s.Ops, Op{K: "tset", T: 0, Y: fmt.Sprintf("f%d", i), V: "f"})
		}
	}
	// late first-touch writes / removals of the parent's keys in the big block
	s.Ops = append(s.Ops, Op{K: "bset", B: 1, Y: "k0", V: val()}, Op{K: "tset", T: 0, Y: "k1", V: val()}, Op{K: "trem", T: 0, Y: "k2"}, Op{K: "tcommit", T: 0})
	s.Ops = append(s.Ops, Op{K: "txn", B: 1})
	for i := 0; i < 4; i++ {
		s.Ops = append(s.Ops, Op{K: "bget", B: 1, Y: fmt.Sprintf("k%d", i)}, Op{K: "tget", T: 1, Y: fmt.Sprintf("k%d", i)})
	}
	s.Ops = append(s.Ops, Op{K: "bcommit", B: 1}, Op{K: "blk", P: 1})
	for i := 0; i < 4; i++ {
		s.Ops = append(s.Ops, Op{K: "sget", B: 1, Y: fmt.Sprintf("k%d", i)}, Op{K: "qget", B: 1, Y: fmt.Sprintf("k%d", i)}, Op{K: "bget", B: 2, Y: fmt.Sprintf("k%d", i)})
	}
	return s
}
