package cachesim

import "verif/harness/sim"

func init() {
	for _, p := range []string{"C06", "C07"} {
		p := p
		sim.Register(&sim.Engine{
			Prop:   p,
			Gen:    func(r *sim.Rand, tier string) sim.Script { return Gen(p, r, tier) },
			Exec:   Exec,
			Decode: Decode,
		})
	}
	sim.Register(&sim.Engine{Prop: "C08", Gen: GenSched, Exec: ExecSched, Decode: Decode, Sched: true, Concretize: concretize})
}
