//go:build simsched

package cachesim

import (
	"fmt"
	"strings"

	"github.com/0chain/common/core/statecache"

	"verif/harness/sched"
	"verif/harness/sim"
	"verif/simrt"
)

var raceLog = sched.OpenRaceLog()

type rec struct {
	op       Op
	inv, ret int64
	hit      bool
	val      string
	skip     bool
}

// writer returns the hash-chain expectation that does not depend on timing:
// the first block on the chain from block index b (inclusive) whose script
// writes key, whether it is committed yet or not.
func (w *world) writer(b int, key string) (*mblock, bool) {
	seen := 0
	for b >= 0 && b < len(w.m.blocks) && seen < 10000 {
		blk := w.m.blocks[b]
		if _, ok := blk.planned[key]; ok {
			return blk, true
		}
		p, ok := w.m.byHash[blk.prev]
		if !ok {
			return nil, false
		}
		b = p.index
		seen++
	}
	return nil, false
}

// ExecSched runs a C08 script: sequential setup (Ops), then the tasks under the seeded scheduler.
func ExecSched(sc sim.Script) *sim.Outcome {
	s := sc.(*Script)
	w := newWorld(s)
	for i, op := range s.Ops {
		w.step = i
		w.apply(op)
		if w.v != nil {
			return w.outcome()
		}
	}
	// freeze what every block is going to have written once committed
	for i, b := range w.m.blocks {
		b.index = i
		b.planned = map[string]entry{}
		src := b.pre
		if b.committed {
			src = b.writes
		}
		for k, e := range src {
			b.planned[k] = e
		}
	}
	recs := make([][]rec, len(s.Tasks))
	fns := make([]func(), len(s.Tasks))
	est := 0
	for ti := range s.Tasks {
		ti := ti
		est += 40 * len(s.Tasks[ti])
		fns[ti] = func() {
			for _, op := range s.Tasks[ti] {
				r := rec{op: op, inv: simrt.Stamp()}
				switch op.K {
				case "bcommit":
					if b := w.blk(op.B); b != nil {
						b.bc.Commit()
					}
				case "sget", "qget":
					if b := w.blk(op.B); b != nil {
						var v statecache.Value
						if op.K == "qget" {
							v, r.hit = statecache.NewQueryBlockCache(w.sc, b.hash).Get(op.Y)
						} else {
							v, r.hit = w.sc.Get(op.Y, b.hash)
						}
						if r.hit {
							r.val = render(v)
							if s.Scribble {
								scribble(v) // what a hit returns belongs to the caller
							}
						}
					}
				case "tcommit": // a transaction's writes are handed to its block while other tasks read through that transaction cache
					if t := w.txn(op.T); t != nil {
						t.tc.Commit()
					}
					r.skip = true
				case "tget":
					if t := w.txn(op.T); t != nil {
						var v statecache.Value
						v, r.hit = t.tc.Get(op.Y)
						if r.hit {
							r.val = render(v)
						}
					} else {
						r.skip = true
					}
				case "bgetc": // BlockCache.Get / Set on a block that IS being committed: judged by the race / panic clauses only
					// (after its commit a block cache answers from the previous block's chain, see DESIGN.md 16.4)
					if b := w.blk(op.B); b != nil {
						b.bc.Get(op.Y)
						b.bc.Stats()
					}
					r.skip = true
				case "bget": // through the block cache of an uncommitted block that no task commits
					if b := w.blk(op.B); b != nil && !b.committed && !w.commitPlanned[op.B] {
						var v statecache.Value
						v, r.hit = b.bc.Get(op.Y)
						if r.hit {
							r.val = render(v)
							if s.Scribble {
								scribble(v)
							}
						}
					} else {
						r.skip = true // a block cache is not used once its block is (being) committed
					}
				}
				r.ret = simrt.Stamp()
				recs[ti] = append(recs[ti], r)
			}
		}
	}
	w.commitPlanned = map[int]bool{}
	for _, t := range s.Tasks {
		for _, op := range t {
			if op.K == "bcommit" {
				w.commitPlanned[op.B] = true
			}
		}
	}
	plan := sched.Plan{Strategy: s.Strategy, Seed: s.SchedSeed, Choices: s.Schedule}
	if plan.Strategy == "" {
		plan.Strategy = "replay"
	}
	res := sched.Run(plan, est, 200000, fns...)
	for _, t := range s.Tasks {
		for _, op := range t {
			w.stats.Inc("op.task-" + op.K)
		}
	}
	w.stats.Add("sim.steps", int64(res.Steps))
	w.stats.Add("sched.switches", int64(res.Switches))
	w.stats.Add("sched.decisions", int64(res.Decisions))
	w.stats.Inc("sched.strategy." + plan.Strategy)
	w.taken = res.Taken
	w.states[res.Digest] = true
	w.log.Printf("sched %s steps=%d", res.Digest, res.Steps)
	if res.Err != nil {
		w.fail("sched."+strings.Fields(res.Err.Error())[0], "scheduler", "%v", res.Err)
	}
	for ti, p := range res.Panics {
		if p != nil {
			w.fail("panic", "panic:"+fmt.Sprint(p), "task %d panicked: %v", ti, p)
		}
	}
	for _, sig := range raceLog.New("github.com/0chain/common") {
		w.fail("race", "race:"+sig, "data race reported by the race detector: %s", sig)
	}
	if w.v != nil || sched.RaceEnabled {
		// the -race build decides only the race / panic / deadlock clauses: the detector reports a
		// given race once per process, so value oracles there would not replay in a fresh process
		return w.outcomeSched()
	}
	// commit return stamps
	type cr struct{ ret int64 }
	committedAt := map[int]int64{} // block -> earliest return stamp of a commit of it (setup commits: -1)
	for i, b := range w.m.blocks {
		if b.committed {
			committedAt[i] = -1
		}
	}
	for _, rs := range recs {
		for _, r := range rs {
			if r.op.K == "bcommit" {
				if old, ok := committedAt[r.op.B]; !ok || r.ret < old {
					committedAt[r.op.B] = r.ret
				}
			}
		}
	}
	for ti, rs := range recs {
		for _, r := range rs {
			if r.op.K == "bcommit" {
				w.stats.Inc("mut")
				continue
			}
			if r.op.K == "tget" && !r.skip {
				// what a transaction wrote or removed is what a lookup through it returns: before its commit from its
				// own map, afterwards from its block's, at no moment from further down
				if t := w.txn(r.op.T); t != nil {
					if e, ok := t.m[r.op.Y]; ok {
						w.judge(ti, r, e, true, true)
					}
				}
				continue
			}
			if r.skip || w.blk(r.op.B) == nil {
				continue
			}
			b := r.op.B
			start := b
			if r.op.K == "bget" {
				// block-cache context: own pre-commit map first, then the previous block's chain
				blk := w.blk(b)
				if blk == nil {
					continue
				}
				if e, ok := blk.planned[r.op.Y]; ok {
					w.judge(ti, r, e, true, true)
					continue
				}
				p, ok := w.m.byHash[blk.prev]
				if !ok {
					w.judge(ti, r, entry{}, false, false)
					continue
				}
				start = p.index
			}
			wb, ok := w.writer(start, r.op.Y)
			if !ok {
				w.judge(ti, r, entry{}, false, false)
				continue
			}
			// must-hit: every block from start down to the writer had its commit return before the lookup was invoked
			// ... and nothing can have been given up for capacity: the ancestor links are kept in a table of 2000
			// and a walk gives up after 2000 links (the property's "unless evicted for capacity"); runs with
			// more blocks than that only have their hits judged
			must := len(w.m.blocks) <= 1900
			for x := start; ; {
				at, done := committedAt[x]
				if !done || at >= r.inv {
					must = false
					break
				}
				if x == wb.index {
					break
				}
				x = w.m.byHash[w.m.blocks[x].prev].index
			}
			w.judge(ti, r, wb.planned[r.op.Y], true, must)
		}
	}
	return w.outcomeSched()
}

func (w *world) judge(ti int, r rec, exp entry, expOK bool, must bool) {
	if w.v != nil {
		return
	}
	if must && expOK && !exp.deleted {
		w.stats.Inc("probe.must-hit-checked")
	}
	if r.hit {
		w.stats.Inc("probe.hit")
		switch {
		case !expOK:
			w.fail("c08.hit", "hit-without-writer", "task %d: lookup %s(%q at block %d) hit with %q although no block on that chain writes the key", ti, r.op.K, r.op.Y, r.op.B, r.val)
		case exp.deleted:
			w.fail("c08.hit", "removed-key-hit", "task %d: lookup hit a removed key", ti)
		case r.val != exp.val:
			w.fail("c08.hit", "wrong-value", "task %d: lookup %s(%q at block %d) [steps %d-%d] returned %q; the block tree determines %q", ti, r.op.K, r.op.Y, r.op.B, r.inv, r.ret, r.val, exp.val)
		}
		return
	}
	w.stats.Inc("probe.miss")
	if must && expOK && !exp.deleted {
		w.fail("c08.miss", "miss-after-commit-returned", "task %d: lookup %s(%q at block %d) invoked at step %d missed although every commit on its chain down to the writer had returned before", ti, r.op.K, r.op.Y, r.op.B, r.inv)
	}
}

func (w *world) outcomeSched() *sim.Outcome {
	o := w.outcome()
	o.Taken = w.taken
	o.Nontrivial = w.stats["sched.switches"] >= 1 && w.stats["mut"] >= 1
	return o
}

// concretize turns a strategy-driven script into an explicit-schedule script.
func concretize(sc sim.Script, o *sim.Outcome) sim.Script {
	s := sc.(*Script)
	if s.Strategy == "replay" || len(o.Taken) == 0 {
		return sc
	}
	c := *s
	c.Strategy = "replay"
	c.Schedule = append([]int{}, o.Taken...)
	return &c
}
