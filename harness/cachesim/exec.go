package cachesim

import (
	"fmt"
	"sort"
	"strings"

	"github.com/0chain/common/core/logging"
	"github.com/0chain/common/core/statecache"
	"go.uber.org/zap"

	"verif/harness/sim"
)

func init() { logging.Logger = zap.NewNop() }

const (
	perKeyVersions = 200  // versions kept per key (shipped constant, used only to decide when a MISS is legitimate)
	maxLinks       = 2000 // ancestor links kept
	maxKeys        = 100 * 1024
)

type world struct {
	s               *Script
	prop            string
	sc              *statecache.StateCache
	m               *model
	stats           sim.Stats
	log             *sim.Log
	v               *sim.Violation
	step            int
	nval            int
	states          map[string]bool
	committedBlocks int
	touchLater      [][2]string
	commitPlanned   map[int]bool
	taken           []int
}

func (w *world) fail(oracle, class, f string, a ...interface{}) {
	if w.v == nil {
		w.v = &sim.Violation{Property: w.prop, Oracle: oracle, Class: class, Detail: fmt.Sprintf(f, a...), Step: w.step}
	}
}

func (w *world) guard(what string, f func()) (panicked bool) {
	defer func() {
		if r := recover(); r != nil {
			panicked = true
			s := fmt.Sprint(r)
			if i := strings.IndexByte(s, '\n'); i >= 0 {
				s = s[:i]
			}
			if len(s) > 60 {
				s = s[:60]
			}
			w.fail("panic", "panic:"+s, "%s panicked: %v", what, r)
		}
	}()
	f()
	return false
}

func newWorld(s *Script) *world {
	return &world{s: s, prop: s.Prop, sc: statecache.NewStateCache(), stats: sim.Stats{}, log: &sim.Log{}, states: map[string]bool{},
		m: &model{byHash: map[string]*mblock{}, versionsAdded: map[string]int{}, vers: map[string]*mlru{}, links: newLRU(maxLinks)}}
}

// Exec runs a sequential cache script (C06, C07).
func Exec(sc sim.Script) *sim.Outcome {
	s := sc.(*Script)
	if len(s.Tasks) > 0 {
		return ExecSched(sc)
	}
	w := newWorld(s)
	for i, op := range s.Ops {
		w.step = i
		w.stats.Inc("op." + op.K)
		w.apply(op)
		if w.v != nil {
			break
		}
	}
	return w.outcome()
}

func (w *world) outcome() *sim.Outcome {
	// distinct-state measure: (block-tree shape, per-key version map)
	var sb strings.Builder
	idx := map[string]int{}
	for i, b := range w.m.blocks {
		idx[b.hash] = i
	}
	for _, b := range w.m.blocks {
		p, ok := idx[b.prev]
		if !ok {
			p = -1
		}
		fmt.Fprintf(&sb, "%d:%v:", p, b.committed)
		ks := make([]string, 0, len(b.writes))
		for k, e := range b.writes {
			ks = append(ks, fmt.Sprintf("%s%v", k, e.deleted))
		}
		sort.Strings(ks)
		sb.WriteString(strings.Join(ks, ",") + ";")
	}
	w.states[sim.Digest(sb.String())] = true
	w.log.Printf("%s hits=%d miss=%d", sim.Digest(sb.String()), w.stats["probe.hit"], w.stats["probe.miss"])
	o := &sim.Outcome{V: w.v, Stats: w.stats, Digest: w.log.Digest()}
	for k := range w.states {
		o.States = append(o.States, k)
	}
	sort.Strings(o.States)
	o.Nontrivial = w.stats["probe.hit"] >= 1 && w.stats["mut"] >= 2
	return o
}

func (w *world) blk(i int) *mblock {
	if i < 0 || i >= len(w.m.blocks) {
		return nil
	}
	return w.m.blocks[i]
}
func (w *world) txn(i int) *mtxn {
	if i < 0 || i >= len(w.m.txns) {
		return nil
	}
	return w.m.txns[i]
}

func (w *world) copyOracle() bool { return w.prop == "C07" }

func (w *world) apply(op Op) {
	switch op.K {
	case "blk":
		prev := fmt.Sprintf("unknown%d", len(w.m.blocks))
		round := int64(1)
		if p := w.blk(op.P); p != nil && op.P >= 0 {
			prev = p.hash
			round = p.round + 1
		}
		hash := fmt.Sprintf("b%d", len(w.m.blocks))
		if w.s.Names == "ambig" {
			hash = strings.Repeat("q", len(w.m.blocks)%4) + fmt.Sprintf("z%d", len(w.m.blocks)/4)
		}
		b := &mblock{hash: hash, prev: prev, round: round, pre: map[string]entry{}}
		b.bc = statecache.NewBlockCache(w.sc, statecache.Block{Round: round, Hash: b.hash, PrevHash: prev})
		w.m.blocks = append(w.m.blocks, b)
		w.m.byHash[b.hash] = b
	case "twin":
		// a block that is already committed is executed again: a second BlockCache object with the same hash. Its
		// Commit is rejected (the hash is committed); whatever it holds stays its own until it gets a new hash.
		if o := w.blk(op.B); o != nil && o.committed && o.twinOf == nil {
			b := &mblock{hash: o.hash, prev: o.prev, round: o.round, pre: map[string]entry{}, twinOf: o}
			b.bc = statecache.NewBlockCache(w.sc, statecache.Block{Round: o.round, Hash: o.hash, PrevHash: o.prev})
			w.m.blocks = append(w.m.blocks, b)
			w.stats.Inc("probe.second-cache-object-for-a-committed-block")
		} else {
			// keep block indices aligned with the generator: an unrelated fresh block
			w.apply(Op{K: "blk", P: -1})
		}
	case "sethash":
		if b := w.blk(op.B); b != nil && !b.committed {
			nh := fmt.Sprintf("%s.r%d", b.hash, op.N)
			if _, taken := w.m.byHash[nh]; taken {
				return
			}
			// children created earlier keep pointing at the old hash (as in the real system the hash is set before children exist)
			for _, c := range w.m.blocks {
				if c.prev == b.hash {
					return
				}
			}
			w.guard("SetBlockHash", func() { b.bc.SetBlockHash(nh) })
			if b.twinOf == nil {
				delete(w.m.byHash, b.hash)
			}
			b.twinOf = nil // with a hash of its own it is an ordinary block
			b.hash = nh
			w.m.byHash[nh] = b
		}
	case "txn":
		if b := w.blk(op.B); b != nil && !b.committed {
			t := &mtxn{block: op.B, m: map[string]entry{}}
			t.tc = statecache.NewTransactionCache(b.bc)
			w.m.txns = append(w.m.txns, t)
		}
	case "qtxn": // transaction cache over a query cache at block B (never committed)
		if b := w.blk(op.B); b != nil {
			t := &mtxn{block: op.B, m: map[string]entry{}, query: true, qhash: b.hash}
			t.tc = statecache.NewTransactionCache(statecache.NewQueryBlockCache(w.sc, b.hash))
			w.m.txns = append(w.m.txns, t)
		}
	case "tset":
		if t := w.txn(op.T); t != nil && w.usable(t) {
			w.nval++
			v, r := mkValue(w.s.Values, op.V, w.nval)
			if w.guard("TransactionCache.Set", func() { t.tc.Set(op.Y, v) }) {
				return
			}
			if w.copyOracle() {
				scribble(v)
				w.stats.Inc("fault.scribble-value-after-set")
			}
			t.m[op.Y] = entry{val: r}
			w.stats.Inc("mut")
		}
	case "trem":
		if t := w.txn(op.T); t != nil && w.usable(t) {
			if w.guard("TransactionCache.Remove", func() { t.tc.Remove(op.Y) }) {
				return
			}
			t.m[op.Y] = entry{deleted: true}
			w.stats.Inc("mut")
			w.stats.Inc("probe.remove")
		}
	case "tget":
		if t := w.txn(op.T); t != nil && w.usable(t) {
			var got statecache.Value
			var hit bool
			if w.guard("TransactionCache.Get", func() { got, hit = t.tc.Get(op.Y) }) {
				return
			}
			exp, ok, own := w.expectTxn(t, op.Y)
			w.check("txn", op.Y, got, hit, exp, ok, own)
		}
	case "tcommit":
		if t := w.txn(op.T); t != nil && w.usable(t) && !t.query {
			if w.guard("TransactionCache.Commit", func() { t.tc.Commit() }) {
				return
			}
			b := w.blk(t.block)
			for k, e := range t.m {
				b.pre[k] = e
			}
			t.m = map[string]entry{}
			w.stats.Inc("probe.txn-commit")
		}
	case "bset":
		if b := w.blk(op.B); b != nil && !b.committed {
			w.nval++
			v, r := mkValue(w.s.Values, op.V, w.nval)
			if w.guard("BlockCache.Set", func() { b.bc.Set(op.Y, v) }) {
				return
			}
			if w.copyOracle() {
				scribble(v)
			}
			b.pre[op.Y] = entry{val: r}
			w.stats.Inc("mut")
		}
	case "bget":
		if b := w.blk(op.B); b != nil && !b.committed {
			var got statecache.Value
			var hit bool
			if w.guard("BlockCache.Get", func() { got, hit = b.bc.Get(op.Y) }) {
				return
			}
			exp, ok, own := w.expectBlock(b, op.Y)
			w.check("block", op.Y, got, hit, exp, ok, own)
		}
	case "bcommit":
		if b := w.blk(op.B); b != nil {
			if w.guard("BlockCache.Commit", func() { b.bc.Commit() }) {
				return
			}
			if b.twinOf != nil {
				w.stats.Inc("probe.commit-rejected-hash-already-committed")
				return // rejected: nothing is published and the twin keeps what it holds
			}
			if !b.committed {
				b.committed = true
				b.writes = b.pre
				b.pre = map[string]entry{}
				for k, e := range b.writes {
					w.m.versionsAdded[k]++
					e.seq = w.m.versionsAdded[k]
					b.writes[k] = e
					if w.m.vers[k] == nil {
						w.m.vers[k] = newLRU(perKeyVersions)
					}
					if w.m.vers[k].Add(b.hash) {
						w.stats.Inc("probe.per-key-lru-evicted")
					}
				}
				if w.m.links.Add(b.hash) {
					w.stats.Inc("probe.link-lru-evicted")
				}
				w.committedBlocks++
				w.stats.Inc("probe.block-commit")
				if pb := w.m.byHash[b.prev]; pb != nil && !pb.committed {
					w.stats.Inc("probe.commit-child-before-parent")
				}
			} else {
				w.stats.Inc("probe.commit-twice")
			}
		}
	case "sget", "qget":
		h := fmt.Sprintf("nosuch%d", op.B)
		if b := w.blk(op.B); b != nil {
			h = b.hash
		}
		var got statecache.Value
		var hit bool
		if w.guard("StateCache.Get", func() {
			if op.K == "qget" {
				got, hit = statecache.NewQueryBlockCache(w.sc, h).Get(op.Y)
			} else {
				got, hit = w.sc.Get(op.Y, h)
			}
		}) {
			return
		}
		exp, depth, ok := w.m.chain(op.Y, h)
		w.noteMemo(op.Y, h, depth, ok)
		w.check("state", op.Y, got, hit, exp, ok, false)
		w.m.touch(op.Y, h)
	case "scremove":
		w.guard("StateCache.Remove", func() { w.sc.Remove(op.Y) })
		// every version of the key is gone from the cache: lookups may only miss until written again
		for _, b := range w.m.blocks {
			if b.committed {
				delete(b.writes, op.Y)
			}
		}
		delete(w.m.vers, op.Y)
		w.stats.Inc("probe.state-remove")
	}
}

// usable: a transaction cache is used only while its block is not committed.
func (w *world) usable(t *mtxn) bool {
	if t.query {
		return true
	}
	b := w.blk(t.block)
	return b != nil && !b.committed
}

func (w *world) expectBlock(b *mblock, key string) (entry, bool, bool) {
	if e, ok := b.pre[key]; ok {
		return e, true, true
	}
	e, depth, ok := w.m.chain(key, b.prev)
	w.noteMemo(key, b.prev, depth, ok)
	w.touchLater = append(w.touchLater, [2]string{key, b.prev})
	return e, ok, false
}

func (w *world) expectTxn(t *mtxn, key string) (entry, bool, bool) {
	if e, ok := t.m[key]; ok {
		return e, true, true
	}
	if t.query {
		e, depth, ok := w.m.chain(key, t.qhash)
		w.noteMemo(key, t.qhash, depth, ok)
		w.touchLater = append(w.touchLater, [2]string{key, t.qhash})
		return e, ok, false
	}
	return w.expectBlock(w.blk(t.block), key)
}

// noteMemo: a successful walk of depth >= 1 memoises the entry for the queried block (one more version of the key).
func (w *world) noteMemo(key, h string, depth int, ok bool) {
	if ok && depth >= 1 {
		if w.m.memo == nil {
			w.m.memo = map[string]bool{}
		}
		if !w.m.memo[key+"|"+h] {
			w.m.memo[key+"|"+h] = true
			w.m.versionsAdded[key]++
		}
		w.stats.Inc("probe.memoising-read")
	}
}

// evictionPossible: decided from the model only.
func (w *world) evictionPossible(key string) bool {
	return w.m.versionsAdded[key] > perKeyVersions || w.committedBlocks > maxLinks || len(w.m.versionsAdded) > maxKeys
}

func (w *world) check(ctx, key string, got statecache.Value, hit bool, exp entry, expOK bool, own bool) {
	defer func() {
		// replay the lookup's LRU accesses on the capacity replica after judging it
		for _, t := range w.touchLater {
			w.m.touch(t[0], t[1])
		}
		w.touchLater = nil
	}()
	if hit {
		w.stats.Inc("probe.hit")
		r := render(got)
		switch {
		case !expOK:
			w.fail("c06.hit", ctx+":hit-without-committed-source", "%s lookup of %q hit with %q although no committed block on its chain (nor an own write) holds the key", ctx, key, r)
		case exp.deleted:
			class := ctx + ":removed-key-hit"
			// same capacity finding as below when the version that holds the removal was evicted
			if v := w.m.vers[key]; v != nil && exp.at != "" && !v.Has(exp.at) {
				class = "wrong-value:right-version-evicted-for-capacity"
				w.stats.Inc("probe.wrong-value-after-eviction")
			}
			w.fail("c06.hit", class, "%s lookup of %q hit with %q although the key was removed on that chain", ctx, key, r)
		case r != exp.val:
			class := ctx + ":wrong-value"
			// the per-key LRU keeps 200 versions: the right version can only have been
			// evicted if at least 200 versions of the key were added after it
			if v := w.m.vers[key]; v != nil && exp.at != "" && !v.Has(exp.at) {
				class = "wrong-value:right-version-evicted-for-capacity"
				w.stats.Inc("probe.wrong-value-after-eviction")
			}
			w.fail("c06.hit", class, "%s lookup of %q returned %q, the value on that chain is %q", ctx, key, r, exp.val)
		}
		if w.v == nil && w.copyOracle() {
			scribble(got)
			w.stats.Inc("fault.scribble-value-after-get")
		}
		return
	}
	w.stats.Inc("probe.miss")
	if w.prop == "C07" && expOK && !exp.deleted && (own || !w.evictionPossible(key)) {
		w.fail("c07.miss", ctx+":committed-write-not-found", "%s lookup of %q missed although %q was written on its fully committed chain and no capacity was exceeded", ctx, key, exp.val)
	}
	if expOK && exp.deleted {
		w.stats.Inc("probe.tombstone-miss")
	}
}
