// Package corrupt is the corruption engine (C15): it builds real encodings with
// the real code (state-trie nodes in a simulated RocksDB, weighted-trie nodes
// in a simulated store, path exports, block proofs), injects corruption faults
// (torn/truncated/flipped/spliced stored values, corrupted peer messages,
// faulty readers) and drives the real read paths over them.  Oracle: no panic,
// prompt return, and whatever is accepted re-encodes without panicking.
package corrupt

import (
	"bytes"
	"context"
	"encoding/binary"
	"encoding/json"
	"errors"
	"fmt"
	"io"
	"runtime/debug"
	"sort"
	"strings"
	"time"

	"github.com/0chain/common/core/logging"
	"github.com/0chain/common/core/statecache"
	"github.com/0chain/common/core/util"
	"github.com/0chain/common/core/util/wmpt"
	"github.com/fxamacker/cbor/v2"
	"github.com/linxGnu/grocksdb"
	"go.uber.org/zap"
	"golang.org/x/crypto/sha3"

	"verif/harness/sim"
	"verif/harness/simkv"
)

func init() { logging.Logger = zap.NewNop() }

// Mut is one corruption operator applied to a byte string.
type Mut struct {
	K string `json:"k"` // trunc flip rmsep typebyte splice insert dupregion setbyte | structural: kids childlen shortval bigweight nest pairs
	A int    `json:"a"`
	B int    `json:"b"`
}

// Script: which real encoding is corrupted, how, and through which read path it is consumed.
type Script struct {
	Prop   string `json:"prop"`
	Target string `json:"target"` // mptnode mptreader mptstore deadrec wmptnode wmptstore export proof
	Build  uint64 `json:"build"`  // seed of the small history that produces the real encodings
	Pick   int    `json:"pick"`   // which encoding
	Muts   []Mut  `json:"muts"`
}

func (s *Script) Len() int { return len(s.Muts) }
func (s *Script) Without(drop []int) sim.Script {
	d := map[int]bool{}
	for _, i := range drop {
		d[i] = true
	}
	c := *s
	c.Muts = nil
	for i, m := range s.Muts {
		if !d[i] {
			c.Muts = append(c.Muts, m)
		}
	}
	return &c
}
func (s *Script) Simpler() []sim.Script {
	var out []sim.Script
	for i, m := range s.Muts {
		for _, f := range []func(m *Mut){func(m *Mut) { m.A /= 2 }, func(m *Mut) { m.B /= 2 }, func(m *Mut) { m.A-- }, func(m *Mut) { m.B = 0 }} {
			c := *s
			c.Muts = append([]Mut{}, s.Muts...)
			nm := m
			f(&nm)
			if nm.A < 0 || nm.B < 0 || nm == m {
				continue
			}
			c.Muts[i] = nm
			out = append(out, &c)
		}
	}
	if s.Pick > 0 {
		c := *s
		c.Pick = 0
		out = append(out, &c)
	}
	return out
}

func Decode(b []byte) (sim.Script, error) {
	s := &Script{}
	if err := json.Unmarshal(b, s); err != nil {
		return nil, err
	}
	return s, nil
}

// ---------------------------------------------------------------- real encodings

type corpus struct {
	disk     *grocksdb.Disk
	path     string
	pndb     *util.PNodeDB
	root     util.Key
	paths    []string
	nodeKeys [][]byte
	nodeEnc  [][]byte

	kv      *simkv.Store
	wroot   []byte
	wweight uint64
	wkeys   [][]byte
	wNodeK  [][]byte
	wNodeV  [][]byte
	export  []byte
	proofs  [][]byte
	pblocks []uint64
}

var seq int

func build(seed uint64) *corpus {
	r := sim.NewRand(seed)
	c := &corpus{}
	seq++
	c.path = fmt.Sprintf("sim://corrupt/%d", seq)
	c.disk = grocksdb.NewDisk()
	grocksdb.SimSetDisk(c.path, c.disk)
	c.pndb, _ = util.NewPNodeDB(c.path, "")
	t := util.NewMerklePatriciaTrie(c.pndb, util.Sequence(1+r.Intn(9)), nil, statecache.NewEmpty())
	alpha := "01af"
	n := 2 + r.Intn(6)
	for i := 0; i < n; i++ {
		l := 2 * (1 + r.Intn(3))
		p := make([]byte, l)
		for j := range p {
			p[j] = alpha[r.Intn(len(alpha))]
		}
		v := []byte(fmt.Sprintf("val%d:%d", i, r.Intn(100)))
		if r.Chance(1, 4) {
			v = append(v, ':', 2, 4, 8)
		}
		t.Insert(util.Path(p), &util.SecureSerializableValue{Buffer: v})
		c.paths = append(c.paths, string(p))
	}
	if r.Chance(1, 2) {
		t.Insert(util.Path(c.paths[0][:2]), &util.SecureSerializableValue{Buffer: []byte("interior")})
		c.paths = append(c.paths, c.paths[0][:2])
	}
	c.root = t.GetRoot()
	c.pndb.RecordDeadNodes(t.GetDeletes(), 1)
	for _, k := range c.disk.Keys(0) {
		v, _ := c.disk.RawGet(0, k)
		c.nodeKeys = append(c.nodeKeys, k)
		c.nodeEnc = append(c.nodeEnc, v)
	}
	// weighted trie
	c.kv = simkv.New()
	wt := wmpt.New(nil, c.kv)
	nk := 2 + r.Intn(8)
	for i := 0; i < nk; i++ {
		k := make([]byte, 32)
		for j := range k {
			k[j] = byte(r.U64())
		}
		if i > 0 && r.Chance(1, 2) {
			copy(k, c.wkeys[r.Intn(len(c.wkeys))][:1+r.Intn(31)])
		}
		c.wkeys = append(c.wkeys, k)
		v := []byte(fmt.Sprintf("%c%d", 'a'+r.Intn(20), i))
		wt.Update(k, v, 1+uint64(v[0]%7))
	}
	b, err := wt.Commit([]int{0, 1, 2, 64}[r.Intn(4)])
	if err == nil {
		b.Commit(true)
	}
	c.wroot, c.wweight = wt.Root(), wt.Weight()
	for _, k := range c.kv.Keys() {
		v, _ := c.kv.RawGet([]byte(k))
		c.wNodeK = append(c.wNodeK, []byte(k))
		c.wNodeV = append(c.wNodeV, v)
	}
	req := [][]byte{}
	for i := 0; i < 1+r.Intn(len(c.wkeys)); i++ {
		req = append(req, c.wkeys[r.Intn(len(c.wkeys))])
	}
	c.export, _ = wt.GetPath(req)
	for i := 0; i < 3; i++ {
		blk := 1 + r.U64()%c.wweight
		if _, p, err := wt.GetBlockProof(blk); err == nil {
			c.proofs = append(c.proofs, p)
			c.pblocks = append(c.pblocks, blk)
		}
	}
	return c
}

func (c *corpus) close() { grocksdb.SimDropDisk(c.path) }

// ---------------------------------------------------------------- byte-level operators

func mod(a, n int) int {
	if n <= 0 {
		return 0
	}
	return ((a % n) + n) % n
}

func mutate(b []byte, m Mut, others [][]byte) []byte {
	b = append([]byte{}, b...)
	switch m.K {
	case "trunc":
		return b[:mod(m.A, len(b)+1)]
	case "flip":
		if len(b) > 0 {
			i := mod(m.A, len(b)*8)
			b[i/8] ^= 1 << uint(i%8)
		}
	case "setbyte":
		if len(b) > 0 {
			b[mod(m.A, len(b))] = byte(m.B)
		}
	case "rmsep":
		k := mod(m.A, 20)
		for i := range b {
			if b[i] == ':' {
				if k == 0 {
					return append(b[:i], b[i+1:]...)
				}
				k--
			}
		}
	case "typebyte":
		if len(b) > 0 {
			b[0] = byte(m.A)
		}
	case "splice":
		if len(others) > 0 {
			o := others[mod(m.B, len(others))]
			cut := mod(m.A, len(b)+1)
			ocut := mod(m.A+m.B, len(o)+1)
			return append(b[:cut], o[ocut:]...)
		}
	case "insert":
		i := mod(m.A, len(b)+1)
		ins := bytes.Repeat([]byte{byte(m.B)}, 1+mod(m.B, 9))
		return append(b[:i], append(ins, b[i:]...)...)
	case "dupregion":
		if len(b) > 1 {
			i := mod(m.A, len(b))
			j := i + 1 + mod(m.B, len(b)-i)
			return append(b[:j], b[i:]...)
		}
	}
	return b
}

// structural operators on a weighted-trie node blob (CBOR level)
func mutateNode(b []byte, m Mut) []byte {
	var p wmpt.PersistNodeBase
	if err := cbor.Unmarshal(b, &p); err != nil {
		return b
	}
	switch m.K {
	case "kids": // more (or fewer) than 16 children
		if p.Branch != nil {
			n := []int{17, 18, 32, 15, 1, 0, 300}[mod(m.A, 7)]
			kids := make([][]byte, n)
			for i := range kids {
				if len(p.Branch.Children) > 0 {
					kids[i] = p.Branch.Children[i%len(p.Branch.Children)]
				}
			}
			p.Branch.Children = kids
		}
	case "childlen": // child blobs of length 41..71 (and other odd lengths)
		if p.Branch != nil {
			for i, c := range p.Branch.Children {
				if len(c) >= 40 && mod(m.A, 4) != 3 {
					l := []int{41, 50, 71, 72, 73, 39, 1, 8}[mod(m.B, 8)]
					nb := make([]byte, l)
					copy(nb, c)
					p.Branch.Children[i] = nb
					if mod(m.A, 2) == 0 {
						break
					}
				}
			}
		}
	case "shortval":
		if p.Short != nil {
			l := []int{0, 1, 39, 41, 80}[mod(m.A, 5)]
			nb := make([]byte, l)
			copy(nb, p.Short.Value)
			p.Short.Value = nb
		}
	case "bigweight":
		if p.Value != nil {
			p.Value.Weight = ^uint64(0) - uint64(mod(m.A, 3))
		}
		if p.Branch != nil {
			for i, c := range p.Branch.Children {
				if len(c) >= 40 {
					nb := append([]byte{}, c...)
					for j := 32; j < 40; j++ {
						nb[j] = 0xff
					}
					p.Branch.Children[i] = nb
				}
			}
		}
	case "nest": // several variants set at once
		p.Value = &wmpt.PersistNodeValue{Value: []byte("x"), Weight: 1}
		p.NilNode = &wmpt.PersistNilNode{}
	case "nilfields":
		if p.Branch != nil {
			p.Branch.Hash = nil
		}
		if p.Short != nil {
			p.Short.Key = nil
			p.Short.Hash = nil
		}
		if p.Value != nil {
			p.Value.Value = nil
			p.Value.Hash = nil
		}
	}
	out, err := cbor.Marshal(&p)
	if err != nil {
		return b
	}
	return out
}

// structural operators on a message (path export / proof): the list of node blobs
func mutateMsg(b []byte, m Mut, others [][]byte) []byte {
	var pt wmpt.PersistTrie
	if err := cbor.Unmarshal(b, &pt); err != nil || len(pt.Pairs) == 0 {
		return b
	}
	i := mod(m.A, len(pt.Pairs))
	switch m.K {
	case "pairs.drop":
		pt.Pairs = append(pt.Pairs[:i], pt.Pairs[i+1:]...)
	case "pairs.dup":
		pt.Pairs = append(pt.Pairs[:i+1], pt.Pairs[i:]...)
	case "pairs.nil":
		pt.Pairs[i] = nil
	case "pairs.trunc":
		pt.Pairs = pt.Pairs[:i]
	case "pairs.swap":
		j := mod(m.B, len(pt.Pairs))
		pt.Pairs[i], pt.Pairs[j] = pt.Pairs[j], pt.Pairs[i]
	case "pairs.collapse", "pairs.rekind":
		// The Hash field of every node kind is a claim. collapse: a whole subtree of the pre-order list is
		// replaced by the hash reference the exporter itself uses for unloaded subtrees (same hash, same weight).
		// rekind: one node is replaced by a node of another kind that claims the same hash (its subtree stays).
		if pt.Pairs[i] == nil {
			break
		}
		var p wmpt.PersistNodeBase
		if err := cbor.Unmarshal(pt.Pairs[i].Value, &p); err != nil {
			break
		}
		hash, weight := claimed(&p)
		if hash == nil {
			break
		}
		var re wmpt.PersistNodeBase
		end := i + 1
		if m.K == "pairs.collapse" {
			end = extent(pt.Pairs, i, 0)
			re.HashNode = &wmpt.PersistHashNode{Hash: hash, Weight: weight}
		} else {
			blob := append(append([]byte{}, hash...), 0, 0, 0, 0, 0, 0, 0, byte(weight))
			switch mod(m.B, 5) {
			case 0:
				re.HashNode = &wmpt.PersistHashNode{Hash: hash, Weight: weight}
			case 1:
				re.Value = &wmpt.PersistNodeValue{Value: []byte("x"), Hash: hash, Weight: weight}
			case 2:
				re.Short = &wmpt.PersistNodeShort{Key: []byte{1, 2}, Hash: hash, Value: blob}
			case 3:
				ch := make([][]byte, 16)
				ch[mod(m.A, 16)] = blob
				re.Branch = &wmpt.PersistNodeBranch{Hash: hash, Children: ch}
			case 4:
				re.NilNode = &wmpt.PersistNilNode{}
			}
		}
		nb, err := cbor.Marshal(&re)
		if err != nil {
			break
		}
		pt.Pairs = append(append(append([]*wmpt.PersistTriePair{}, pt.Pairs[:i]...), &wmpt.PersistTriePair{Value: nb}), pt.Pairs[end:]...)
	case "pairs.relink":
		// A subtree of the pre-order list is replaced by a node of some kind, and the hash its parent claims for
		// that slot is rewritten to the hash the replacement has (the empty-state hash for the nil node, the
		// replacement's own claim otherwise): the message stays consistent with itself although no trie has
		// that shape (nothing below a shared-prefix node, a value directly under a branch, ...).
		pi, slot, ok := parentSlot(pt.Pairs, i)
		if !ok {
			break
		}
		var par wmpt.PersistNodeBase
		if err := cbor.Unmarshal(pt.Pairs[pi].Value, &par); err != nil {
			break
		}
		nh := make([]byte, 32)
		for j := range nh {
			nh[j] = byte(m.B>>uint(j%8)) ^ byte(j*37)
		}
		var re wmpt.PersistNodeBase
		switch mod(m.B, 6) {
		case 0, 1:
			re.NilNode = &wmpt.PersistNilNode{}
			nh = append([]byte{}, emptyStateHash...)
		case 2:
			re.HashNode = &wmpt.PersistHashNode{Hash: nh, Weight: uint64(mod(m.A, 9))}
		case 3:
			re.Value = &wmpt.PersistNodeValue{Value: []byte("x"), Hash: nh, Weight: uint64(mod(m.A, 9))}
		case 4:
			re.Branch = &wmpt.PersistNodeBranch{Hash: nh, Children: make([][]byte, 16)}
		case 5:
			re.HashNode = &wmpt.PersistHashNode{Hash: append([]byte{}, emptyStateHash...)}
			nh = append([]byte{}, emptyStateHash...)
		}
		patch := func(blob []byte) []byte {
			nb := append([]byte{}, blob...)
			if len(nb) >= 32 {
				copy(nb, nh)
				if len(nb) >= 40 && mod(m.A, 3) == 0 {
					for j := 32; j < 40; j++ {
						nb[j] = 0
					}
				}
			}
			return nb
		}
		switch {
		case par.Branch != nil && slot >= 0 && slot < len(par.Branch.Children):
			par.Branch.Children[slot] = patch(par.Branch.Children[slot])
		case par.Short != nil:
			par.Short.Value = patch(par.Short.Value)
		default:
			ok = false
		}
		pb, err1 := cbor.Marshal(&par)
		nb, err2 := cbor.Marshal(&re)
		if !ok || err1 != nil || err2 != nil {
			break
		}
		end := extent(pt.Pairs, i, 0)
		pt.Pairs[pi] = &wmpt.PersistTriePair{Value: pb}
		pt.Pairs = append(append(append([]*wmpt.PersistTriePair{}, pt.Pairs[:i]...), &wmpt.PersistTriePair{Value: nb}), pt.Pairs[end:]...)
	default:
		if pt.Pairs[i] != nil {
			k := strings.TrimPrefix(m.K, "node.")
			if k != m.K {
				pt.Pairs[i] = &wmpt.PersistTriePair{Value: mutateNode(pt.Pairs[i].Value, Mut{K: k, A: m.B, B: m.A})}
			} else {
				pt.Pairs[i] = &wmpt.PersistTriePair{Value: mutate(pt.Pairs[i].Value, m, others)}
			}
		}
	}
	out, err := cbor.Marshal(&pt)
	if err != nil {
		return b
	}
	return out
}

// claimed returns the hash a persisted node claims for itself and its weight.
func claimed(p *wmpt.PersistNodeBase) ([]byte, uint64) {
	wt := func(blob []byte) uint64 {
		if len(blob) >= 40 {
			return binary.BigEndian.Uint64(blob[32:40])
		}
		return 0
	}
	switch {
	case p.Branch != nil:
		var sum uint64
		for _, c := range p.Branch.Children {
			sum += wt(c)
		}
		return p.Branch.Hash, sum
	case p.Short != nil:
		return p.Short.Hash, wt(p.Short.Value)
	case p.Value != nil:
		return p.Value.Hash, p.Value.Weight
	case p.HashNode != nil:
		return p.HashNode.Hash, p.HashNode.Weight
	}
	return nil, 0
}

// emptyStateHash: sha3-256 of nothing, the hash of an empty (sub)trie in the weighted trie's format.
var emptyStateHash = func() []byte { h := sha3.New256(); return h.Sum(nil) }()

// parentSlot finds, in a pre-order path export, the pair whose node refers to pairs[target] and the slot it does
// so through (child index of a branch, -1 for a shared-prefix node).
func parentSlot(pairs []*wmpt.PersistTriePair, target int) (pi, slot int, ok bool) {
	var walk func(i, depth int) int
	walk = func(i, depth int) int {
		if i >= len(pairs) || depth > 80 || ok {
			return len(pairs)
		}
		next := i + 1
		if pairs[i] == nil {
			return next
		}
		var p wmpt.PersistNodeBase
		if err := cbor.Unmarshal(pairs[i].Value, &p); err != nil {
			return next
		}
		switch {
		case p.Branch != nil:
			for c, blob := range p.Branch.Children {
				if len(blob) > 0 {
					if next == target {
						pi, slot, ok = i, c, true
					}
					next = walk(next, depth+1)
				}
			}
		case p.Short != nil:
			if next == target {
				pi, slot, ok = i, -1, true
			}
			next = walk(next, depth+1)
		}
		return next
	}
	if target > 0 {
		walk(0, 0)
	}
	return
}

// extent returns the index just past the subtree that starts at pairs[i] in a pre-order path export.
func extent(pairs []*wmpt.PersistTriePair, i, depth int) int {
	if i >= len(pairs) || depth > 80 {
		return len(pairs)
	}
	end := i + 1
	if pairs[i] == nil {
		return end
	}
	var p wmpt.PersistNodeBase
	if err := cbor.Unmarshal(pairs[i].Value, &p); err != nil {
		return end
	}
	switch {
	case p.Branch != nil:
		for _, c := range p.Branch.Children {
			if len(c) > 0 {
				end = extent(pairs, end, depth+1)
			}
		}
	case p.Short != nil:
		end = extent(pairs, end, depth+1)
	}
	if end > len(pairs) {
		end = len(pairs)
	}
	return end
}

// cyclic reports whether the nodes readable from db describe a graph with a cycle below root.
func cyclic(db util.NodeDB, root util.Key) bool {
	onStack := map[string]bool{}
	done := map[string]bool{}
	var walk func(k util.Key) bool
	walk = func(k util.Key) bool {
		sk := string(k)
		if onStack[sk] {
			return true
		}
		if done[sk] {
			return false
		}
		n, err := db.GetNode(k)
		if err != nil || n == nil {
			done[sk] = true
			return false
		}
		onStack[sk] = true
		defer func() { delete(onStack, sk); done[sk] = true }()
		switch x := n.(type) {
		case *util.FullNode:
			for _, ch := range x.Children {
				if ch != nil && walk(ch) {
					return true
				}
			}
		case *util.ExtensionNode:
			return walk(x.NodeKey)
		}
		return false
	}
	return len(root) > 0 && walk(root)
}

// faultyReader delivers short reads and fails (EOF or error) after a chosen number of bytes.
type faultyReader struct {
	b     []byte
	limit int
	err   error
	chunk int
}

func (f *faultyReader) Read(p []byte) (int, error) {
	if f.limit <= 0 || len(f.b) == 0 {
		if f.err != nil && f.limit <= 0 {
			return 0, f.err
		}
		return 0, io.EOF
	}
	n := f.chunk
	if n > len(p) {
		n = len(p)
	}
	if n > len(f.b) {
		n = len(f.b)
	}
	if n > f.limit {
		n = f.limit
	}
	copy(p, f.b[:n])
	f.b = f.b[n:]
	f.limit -= n
	return n, nil
}

// ---------------------------------------------------------------- execution

type run struct {
	s     *Script
	stats sim.Stats
	v     *sim.Violation
}

func (r *run) fail(oracle, class, f string, a ...interface{}) {
	if r.v == nil {
		r.v = &sim.Violation{Property: "C15", Oracle: oracle, Class: class, Detail: fmt.Sprintf(f, a...)}
	}
}

func panicClass(p interface{}) string {
	s := fmt.Sprint(p)
	if i := strings.IndexByte(s, '\n'); i >= 0 {
		s = s[:i]
	}
	// strip numbers so that one defect is one class
	out := make([]byte, 0, len(s))
	for i := 0; i < len(s); i++ {
		if s[i] >= '0' && s[i] <= '9' {
			if len(out) == 0 || out[len(out)-1] != '#' {
				out = append(out, '#')
			}
			continue
		}
		out = append(out, s[i])
	}
	if len(out) > 70 {
		out = out[:70]
	}
	return string(out)
}

// decoder frames: a panic counts when it happens inside one of the decoders the
// property names (or, for directly decoded nodes, anywhere in the re-encoding
// the harness performs on what was accepted).
var decoderFrames = []string{"util.CreateNode", ").Decode(", "OriginTracker).Read", "wmpt.DeserializeNode", ").Deserialize(", ").deserializeTrie(", ").VerifyBlockProof(", "wmpt.verifyProof", "deadNodes).decode", "deadNodes).UnmarshalMsg", "util.fromHex"}

type panicInfo struct {
	p     interface{}
	stack string
}

// guard runs f with a panic guard and a hang detector.
func (r *run) guard(what string, input []byte, f func()) {
	done := make(chan *panicInfo, 1)
	go func() {
		defer func() {
			if p := recover(); p != nil {
				done <- &panicInfo{p, string(debug.Stack())}
			} else {
				done <- nil
			}
		}()
		f()
	}()
	select {
	case pi := <-done:
		if pi != nil {
			inDecoder := false
			for _, fr := range decoderFrames {
				if strings.Contains(pi.stack, fr) {
					inDecoder = true
				}
			}
			direct := r.s.Target == "mptnode" || r.s.Target == "mptreader" || r.s.Target == "wmptnode" || r.s.Target == "export" || r.s.Target == "proof"
			if !inDecoder && !direct {
				// a read path of the trie choked on a decodable but meaningless node: outside what C15 states
				r.stats.Inc("outside-scope.panic-beyond-the-decoders")
				return
			}
			where := "in-decoder"
			if !inDecoder {
				where = "re-encoding-accepted"
			}
			r.fail("c15.panic", r.s.Target+":"+where+":"+panicClass(pi.p), "%s panicked at %s on %d corrupted bytes %x: %v", what, topFrame(pi.stack), len(input), clip(input), pi.p)
		}
	case <-time.After(10 * time.Second):
		r.fail("c15.hang", r.s.Target+":"+what, "%s did not return within 10 s on %d corrupted bytes %x", what, len(input), clip(input))
	}
}

// topFrame names the innermost frame of the module under test on a panic stack.
func topFrame(stack string) string {
	lines := strings.Split(stack, "\n")
	for i, l := range lines {
		if strings.HasPrefix(l, "github.com/0chain/common/") && i+1 < len(lines) {
			fn := strings.TrimPrefix(l, "github.com/0chain/common/")
			if j := strings.LastIndexByte(fn, '('); j > 0 {
				fn = fn[:j]
			}
			loc := strings.TrimSpace(lines[i+1])
			if j := strings.LastIndexByte(loc, '/'); j >= 0 {
				loc = loc[j+1:]
			}
			if j := strings.IndexByte(loc, ' '); j >= 0 {
				loc = loc[:j]
			}
			return fn + " (" + loc + ")"
		}
	}
	return "?"
}

func clip(b []byte) []byte {
	if len(b) > 160 {
		return b[:160]
	}
	return b
}

var errInjected = errors.New("injected reader error")

// Exec runs one corruption script.
func Exec(sc sim.Script) *sim.Outcome {
	s := sc.(*Script)
	r := &run{s: s, stats: sim.Stats{}}
	c := build(s.Build)
	defer c.close()
	r.stats.Inc("target." + s.Target)
	// everyPrefix: torn write at EVERY offset of the real encoding (exhaustive for that encoding)
	everyPrefix := len(s.Muts) > 0 && s.Muts[0].K == "everyprefix"
	variants := func(b []byte) [][]byte {
		if !everyPrefix {
			return [][]byte{b}
		}
		out := make([][]byte, 0, len(b)+1)
		for i := 0; i <= len(b); i++ {
			out = append(out, b[:i])
		}
		r.stats.Add("fault.torn-at-every-offset", int64(len(b)+1))
		r.stats.Inc("fault.any")
		return out
	}
	apply := func(b []byte, others [][]byte, structural func([]byte, Mut) []byte) []byte {
		if everyPrefix {
			return b
		}
		orig := b
		for _, m := range s.Muts {
			if structural != nil && (strings.HasPrefix(m.K, "pairs.") || strings.HasPrefix(m.K, "node.") || isNodeOp(m.K)) {
				b = structural(b, m)
			} else {
				b = mutate(b, m, others)
			}
			r.stats.Inc("fault.corrupt-" + m.K)
		}
		if !bytes.Equal(orig, b) {
			r.stats.Inc("fault.any")
		}
		return b
	}
	switch s.Target {
	case "mptnode", "mptreader":
		if len(c.nodeEnc) == 0 {
			break
		}
		b := apply(c.nodeEnc[mod(s.Pick, len(c.nodeEnc))], c.nodeEnc, nil)
		var rd io.Reader = bytes.NewReader(b)
		if s.Target == "mptreader" && len(s.Muts) > 0 {
			m := s.Muts[0]
			fr := &faultyReader{b: c.nodeEnc[mod(s.Pick, len(c.nodeEnc))], limit: mod(m.A, len(b)+2), chunk: 1 + mod(m.B, 7)}
			if m.B%2 == 1 {
				fr.err = errInjected
			}
			rd = fr
			r.stats.Inc("fault.faulty-reader")
		}
		for _, vb := range variants(b) {
			vb := vb
			if everyPrefix {
				rd = bytes.NewReader(vb)
			}
			r.guard("CreateNode", vb, func() {
				n, err := util.CreateNode(rd)
				if err != nil || n == nil {
					r.stats.Inc("probe.rejected")
					return
				}
				r.stats.Inc("probe.accepted")
				n.Encode()
				n.GetHashBytes()
				n.GetHash()
				n.CloneNode()
				n.Clone()
				n.GetVersion()
				n.GetOrigin()
				// Decode is an exported method: a node that already exists (here a structural copy of the accepted
				// one) may be asked to decode the body of another real encoding of its kind
				if len(vb) > 17 {
					for _, other := range c.nodeEnc {
						if len(other) > 17 && other[0] == vb[0] {
							cl := n.CloneNode()
							cl.Decode(other[17:])
							cl.Encode()
							r.stats.Inc("probe.decode-into-an-existing-node")
							break
						}
					}
				}
				// the value node embedded in an accepted leaf or branch is a node in its own right
				if vn := util.GetValueNode(n); vn != nil {
					r.stats.Inc("probe.embedded-value-node-re-encoded")
					vn.Encode()
					vn.GetHashBytes()
					vn.CloneNode()
					vn.Clone()
					vn.GetVersion()
					vn.GetOrigin()
					vn.GetValueBytes()
				}
			})
		}
	case "mptstore":
		if len(c.nodeKeys) == 0 {
			break
		}
		victim := c.nodeKeys[mod(s.Pick, len(c.nodeKeys))]
		b := apply(c.nodeEnc[mod(s.Pick, len(c.nodeEnc))], c.nodeEnc, nil)
		c.disk.Corrupt = func(k, v []byte) []byte {
			if bytes.Equal(k, victim) {
				return b
			}
			return v
		}
		// a spliced encoding can be a valid node that points back at an ancestor: the store then describes a
		// cyclic trie and a traversal never ends (nothing a decoder could reject; outside C15). The read limit
		// turns that into read errors long before the recursion exhausts the stack.
		c.disk.ReadLimit = c.disk.St.Reads + 20000
		t := util.NewMerklePatriciaTrie(c.pndb, 3, c.root, statecache.NewEmpty())
		var cyc bool
		r.guard("PNodeDB.GetNode over a corrupted stored node", b, func() { cyc = cyclic(c.pndb, c.root) })
		if cyc {
			// the trie caches what it has read, so the read limit alone does not end such a traversal
			r.stats.Inc("probe.corrupted-node-makes-the-stored-trie-cyclic (traversals skipped, outside C15)")
			r.guard("PNodeDB reads over a corrupted stored node", b, func() {
				c.pndb.Iterate(context.Background(), func(ctx context.Context, key util.Key, node util.Node) error { node.Encode(); return nil })
				c.pndb.GetNode(victim)
			})
			c.disk.ReadLimit = 0
			break
		}
		r.guard("trie reads over a corrupted stored node", b, func() {
			for _, p := range c.paths {
				t.GetNodeValueRaw(util.Path(p))
			}
			t.Iterate(context.Background(), func(ctx context.Context, path util.Path, key util.Key, node util.Node) error { return nil }, util.NodeTypesAll)
			t.HasMissingNodes(context.Background())
			t.GetAllMissingNodes()
			c.pndb.Iterate(context.Background(), func(ctx context.Context, key util.Key, node util.Node) error { node.Encode(); return nil })
			c.pndb.GetNode(victim)
		})
		r.stats.Add("probe.corrupt-reads", int64(c.disk.St.CorruptReads))
		if c.disk.St.Reads > c.disk.ReadLimit {
			r.stats.Inc("probe.traversal-of-a-cyclic-store-cut-by-the-read-limit")
		}
		c.disk.ReadLimit = 0
	case "deadrec":
		ks := c.disk.Keys(1)
		if len(ks) == 0 {
			break
		}
		raw, _ := c.disk.RawGet(1, ks[0])
		b := apply(raw, c.nodeEnc, nil)
		c.disk.RawPut(1, ks[0], b)
		r.guard("PruneBelowVersion over a corrupted dead-node record", b, func() {
			c.pndb.PruneBelowVersion(context.Background(), 5)
		})
	case "wmptnode":
		if len(c.wNodeV) == 0 {
			break
		}
		b := apply(c.wNodeV[mod(s.Pick, len(c.wNodeV))], c.wNodeV, mutateNode)
		for _, vb := range variants(b) {
			vb := vb
			r.guard("wmpt.DeserializeNode", vb, func() {
				n, err := wmpt.DeserializeNode(vb)
				if err != nil || n == nil {
					r.stats.Inc("probe.rejected")
					return
				}
				r.stats.Inc("probe.accepted")
				n.Serialize()
				n.CalcHash()
				n.Hash()
				n.Weight()
				n.Copy()
				n.CopyRoot(0, 2)
			})
		}
	case "wmptstore":
		if len(c.wNodeK) == 0 {
			break
		}
		victim := c.wNodeK[mod(s.Pick, len(c.wNodeK))]
		b := apply(c.wNodeV[mod(s.Pick, len(c.wNodeV))], c.wNodeV, mutateNode)
		c.kv.Corrupt = func(k, v []byte) []byte {
			if bytes.Equal(k, victim) {
				return b
			}
			return v
		}
		c.kv.GetLimit = c.kv.St.Gets + 20000
		t := wmpt.New(wmpt.NewHashNode(c.wroot, c.wweight), c.kv)
		r.guard("weighted-trie reads over a corrupted stored node", b, func() {
			for blk := uint64(1); blk <= c.wweight && blk <= 64; blk++ {
				t.GetBlockProof(blk)
			}
			ks := c.wkeys
			if len(ks) > 10 {
				ks = ks[:10] // the sequential collection path: a panic inside the parallel one could not be recovered here
			}
			t.GetPath(ks)
		})
		r.stats.Add("probe.corrupt-reads", int64(c.kv.St.CorruptReads))
		if c.kv.St.Gets > c.kv.GetLimit {
			r.stats.Inc("probe.traversal-of-a-cyclic-store-cut-by-the-read-limit")
		}
		c.kv.GetLimit = 0
	case "export":
		b := apply(c.export, c.wNodeV, func(b []byte, m Mut) []byte { return mutateMsg(b, m, c.wNodeV) })
		for _, vb := range variants(b) {
			vb := vb
			r.guard("Deserialize (path export)", vb, func() {
				t := wmpt.New(nil, nil)
				if err := t.Deserialize(vb); err != nil {
					r.stats.Inc("probe.rejected")
					return
				}
				r.stats.Inc("probe.accepted")
				// re-encode what was accepted (updates of a meaningless partial trie are beyond what C15 states)
				t.Root()
				t.Weight()
				if root := t.GetRoot(); root != nil {
					root.Serialize()
					root.CalcHash()
				}
				t.CopyRoot(1)
			})
		}
	case "proof":
		if len(c.proofs) == 0 {
			break
		}
		i := mod(s.Pick, len(c.proofs))
		b := apply(c.proofs[i], c.wNodeV, func(b []byte, m Mut) []byte { return mutateMsg(b, m, c.wNodeV) })
		for _, vb := range variants(b) {
			vb := vb
			r.guard("VerifyBlockProof", vb, func() {
				t := wmpt.New(nil, nil)
				if _, _, err := t.VerifyBlockProof(c.pblocks[i], vb); err != nil {
					r.stats.Inc("probe.rejected")
					return
				}
				r.stats.Inc("probe.accepted")
				t.Root()
				t.Weight()
			})
		}
	}
	o := &sim.Outcome{V: r.v, Stats: r.stats}
	o.Digest = sim.Digest(fmt.Sprint(r.stats["probe.accepted"], r.stats["probe.rejected"], r.v != nil))
	o.States = []string{sim.Digest(s.Target, kinds(s.Muts))}
	o.Nontrivial = r.stats["fault.any"] > 0 || r.stats["fault.faulty-reader"] > 0
	return o
}

func kinds(ms []Mut) string {
	var k []string
	for _, m := range ms {
		k = append(k, m.K)
	}
	sort.Strings(k)
	return strings.Join(k, "+")
}

func isNodeOp(k string) bool {
	switch k {
	case "kids", "childlen", "shortval", "bigweight", "nest", "nilfields":
		return true
	}
	return false
}

var byteOps = []string{"trunc", "trunc", "flip", "setbyte", "rmsep", "typebyte", "splice", "insert", "dupregion"}
var nodeOps = []string{"kids", "childlen", "shortval", "bigweight", "nest", "nilfields"}
var msgOps = []string{"pairs.drop", "pairs.dup", "pairs.nil", "pairs.trunc", "pairs.swap", "pairs.collapse", "pairs.collapse", "pairs.rekind", "pairs.rekind", "pairs.relink", "pairs.relink", "node.kids", "node.childlen", "node.shortval", "node.bigweight", "node.nest", "node.nilfields"}

// Gen generates a corruption script.
func Gen(r *sim.Rand, tier string) sim.Script {
	s := &Script{Prop: "C15"}
	s.Target = []string{"mptnode", "mptnode", "mptreader", "mptstore", "deadrec", "wmptnode", "wmptnode", "wmptstore", "export", "proof"}[r.Intn(10)]
	s.Build = uint64(r.Intn(200)) // a bounded set of base histories so that their encodings get many different corruptions
	s.Pick = r.Intn(64)
	if r.Chance(1, 25) {
		switch s.Target {
		case "mptnode", "wmptnode", "export", "proof":
			s.Muts = []Mut{{K: "everyprefix"}}
			return s
		}
	}
	n := 1 + r.Intn(3)
	for i := 0; i < n; i++ {
		ops := byteOps
		switch s.Target {
		case "wmptnode", "wmptstore":
			if r.Chance(1, 2) {
				ops = nodeOps
			}
		case "export", "proof":
			if r.Chance(2, 3) {
				ops = msgOps
			}
		}
		s.Muts = append(s.Muts, Mut{K: ops[r.Intn(len(ops))], A: r.Intn(1 << 16), B: r.Intn(1 << 16)})
	}
	return s
}

func init() {
	sim.Register(&sim.Engine{Prop: "C15", Gen: Gen, Exec: Exec, Decode: Decode})
}
