// Package simkv is a simulated storage.StorageAdapter: an in-memory key/value
// store with atomic batches, a write log, sync points (Commit(true)),
// crash/power-loss prefixes, I/O error injection and corrupted reads.
package simkv

import (
	"errors"
	"sort"
	"sync"

	"github.com/0chain/common/core/util/storage"
)

// ErrNotFound mirrors pebble's message, which the code under test matches by text.
var ErrNotFound = errors.New("pebble: not found")
var ErrInjected = errors.New("simkv: injected I/O error")

type op struct {
	del  bool
	k, v string
}

type entry struct {
	ops  []op
	sync bool
}

type Stats struct {
	Gets, Puts, Batches, Syncs   int
	GetErrs, PutErrs, CommitErrs int
	CorruptReads                 int
}

type Store struct {
	mu   sync.Mutex
	base map[string]string
	m    map[string]string
	log  []entry

	FailGet     map[int]bool    // ordinals of Get calls that fail
	FailKeys    map[string]bool // Get of these keys fails (independent of the order in which concurrent readers arrive)
	GetLimit    int             // > 0: Get calls beyond this ordinal fail (bounds traversals of a store made cyclic by corruption)
	FailCommit  map[int]bool    // ordinals of batch commits that fail (nothing applied)
	FailAllGets bool            // every Get fails (a transient read outage)
	Corrupt     func(k, v []byte) []byte
	St          Stats
}

func New() *Store { return &Store{base: map[string]string{}, m: map[string]string{}} }

func (s *Store) Get(k []byte) ([]byte, error) {
	s.mu.Lock()
	defer s.mu.Unlock()
	s.St.Gets++
	if s.GetLimit > 0 && s.St.Gets > s.GetLimit {
		s.St.GetErrs++
		return nil, ErrInjected
	}
	if s.FailAllGets || s.FailGet[s.St.Gets] || s.FailKeys[string(k)] {
		s.St.GetErrs++
		return nil, ErrInjected
	}
	v, ok := s.m[string(k)]
	if !ok {
		return nil, ErrNotFound
	}
	out := []byte(v)
	if s.Corrupt != nil {
		n := s.Corrupt(k, out)
		if string(n) != v {
			s.St.CorruptReads++
		}
		out = n
	}
	return out, nil
}

func (s *Store) apply(e entry) error {
	s.mu.Lock()
	defer s.mu.Unlock()
	s.St.Batches++
	if s.FailCommit[s.St.Batches] {
		s.St.CommitErrs++
		return ErrInjected
	}
	for _, o := range e.ops {
		if o.del {
			delete(s.m, o.k)
		} else {
			s.m[o.k] = o.v
		}
	}
	if e.sync {
		s.St.Syncs++
	}
	s.log = append(s.log, e)
	return nil
}

func (s *Store) Put(k, v []byte) error {
	return s.apply(entry{ops: []op{{false, string(k), string(v)}}})
}
func (s *Store) Delete(k []byte) error {
	return s.apply(entry{ops: []op{{true, string(k), ""}}})
}
func (s *Store) Close() {}

type batch struct {
	s   *Store
	mu  sync.Mutex
	ops []op
}

func (s *Store) NewBatch() storage.Batcher { return &batch{s: s} }
func (b *batch) Put(k, v []byte) error {
	b.mu.Lock()
	defer b.mu.Unlock()
	b.ops = append(b.ops, op{false, string(k), string(v)})
	return nil
}
func (b *batch) Delete(k []byte) error {
	b.mu.Lock()
	defer b.mu.Unlock()
	b.ops = append(b.ops, op{true, string(k), ""})
	return nil
}
func (b *batch) Commit(sync bool) error {
	b.mu.Lock()
	ops := append([]op{}, b.ops...)
	b.mu.Unlock()
	// order inside a batch is irrelevant except put/delete of one key; keep program order
	// committing an empty batch writes nothing to the log, so it syncs nothing either
	return b.s.apply(entry{ops: ops, sync: sync && len(ops) > 0})
}

// ---- simulation controls

func (s *Store) LogLen() int { s.mu.Lock(); defer s.mu.Unlock(); return len(s.log) }

// LastSync returns the log length at the most recent synced batch.
func (s *Store) LastSync() int {
	s.mu.Lock()
	defer s.mu.Unlock()
	for i := len(s.log) - 1; i >= 0; i-- {
		if s.log[i].sync {
			return i + 1
		}
	}
	return 0
}

// CloneAtPrefix returns the store a crash would leave if exactly the first j log entries survived.
func (s *Store) CloneAtPrefix(j int) *Store {
	s.mu.Lock()
	defer s.mu.Unlock()
	n := New()
	for k, v := range s.base {
		n.m[k] = v
	}
	for _, e := range s.log[:j] {
		for _, o := range e.ops {
			if o.del {
				delete(n.m, o.k)
			} else {
				n.m[o.k] = o.v
			}
		}
	}
	for k, v := range n.m {
		n.base[k] = v
	}
	return n
}

func (s *Store) Keys() []string {
	s.mu.Lock()
	defer s.mu.Unlock()
	ks := make([]string, 0, len(s.m))
	for k := range s.m {
		ks = append(ks, k)
	}
	sort.Strings(ks)
	return ks
}

func (s *Store) Has(k []byte) bool {
	s.mu.Lock()
	defer s.mu.Unlock()
	_, ok := s.m[string(k)]
	return ok
}

func (s *Store) RawGet(k []byte) ([]byte, bool) {
	s.mu.Lock()
	defer s.mu.Unlock()
	v, ok := s.m[string(k)]
	return []byte(v), ok
}

func (s *Store) RawPut(k, v []byte) {
	s.mu.Lock()
	defer s.mu.Unlock()
	s.m[string(k)] = string(v)
}

func (s *Store) RawDelete(k []byte) {
	s.mu.Lock()
	defer s.mu.Unlock()
	delete(s.m, string(k))
}
