// Package engines links every engine into the worker.
package engines

import (
	_ "verif/harness/cachesim"
	_ "verif/harness/corrupt"
	_ "verif/harness/logsim"
	_ "verif/harness/mptsim"
	_ "verif/harness/wmptsim"
)
