// Package logsim simulates histories over the in-memory ring-buffer logger
// (real MemLogger/MemCore from core/logging, real zap) and checks the buffer
// against a model: the most recent min(n, capacity) entries, newest first
// (C20; the concurrent part runs under the seeded scheduler, see sched.go).
package logsim

import (
	"bytes"
	"encoding/json"
	"fmt"
	"regexp"
	"sort"
	"strings"
	"time"

	"github.com/0chain/common/core/logging"
	"go.uber.org/zap"
	"go.uber.org/zap/zapcore"

	"verif/harness/sim"
)

// Op: derive a logger or write through one.
type Op struct {
	K string `json:"k"`           // derive | write | burst | check
	L int    `json:"l,omitempty"` // logger index
	N int    `json:"n,omitempty"` // derive: kind (0 core.With, 1 zap Logger.With); burst: count
}

type Script struct {
	Prop      string `json:"prop"`
	Ops       []Op   `json:"ops"`
	Tasks     [][]Op `json:"tasks,omitempty"`
	Schedule  []int  `json:"schedule,omitempty"`
	Strategy  string `json:"strategy,omitempty"`
	SchedSeed uint64 `json:"sched_seed,omitempty"`
}

func (s *Script) Len() int {
	n := len(s.Ops)
	for _, t := range s.Tasks {
		n += len(t)
	}
	return n + len(s.Schedule)
}
func (s *Script) Without(drop []int) sim.Script {
	d := map[int]bool{}
	for _, i := range drop {
		d[i] = true
	}
	c := *s
	c.Ops, c.Tasks, c.Schedule = nil, nil, nil
	idx := 0
	for _, o := range s.Ops {
		if !d[idx] {
			c.Ops = append(c.Ops, o)
		}
		idx++
	}
	for _, t := range s.Tasks {
		var nt []Op
		for _, o := range t {
			if !d[idx] {
				nt = append(nt, o)
			}
			idx++
		}
		c.Tasks = append(c.Tasks, nt)
	}
	for _, x := range s.Schedule {
		if !d[idx] {
			c.Schedule = append(c.Schedule, x)
		}
		idx++
	}
	return &c
}
func (s *Script) Simpler() []sim.Script {
	var out []sim.Script
	for i, o := range s.Ops {
		if o.K == "burst" && o.N > 1 {
			for _, n := range []int{o.N / 2, o.N - 1} {
				c := *s
				c.Ops = append([]Op{}, s.Ops...)
				c.Ops[i].N = n
				out = append(out, &c)
			}
		}
	}
	for i := 1; i < len(s.Schedule) && len(out) < 60; i++ {
		if s.Schedule[i] != s.Schedule[i-1] {
			c := *s
			c.Schedule = append([]int{}, s.Schedule...)
			c.Schedule[i] = c.Schedule[i-1]
			out = append(out, &c)
		}
	}
	return out
}

func Decode(b []byte) (sim.Script, error) {
	s := &Script{}
	if err := json.Unmarshal(b, s); err != nil {
		return nil, err
	}
	return s, nil
}

// World holds the real logger objects and the model.
type World struct {
	Prop    string
	ML      *logging.MemLogger
	Loggers []*zap.Logger
	Cores   []zapcore.Core
	Written []string        // model: ids in write order
	Lvl     zap.AtomicLevel // the level enabler the buffer's cores were built with
	Stats   sim.Stats
	V       *sim.Violation
	Step    int
	nid     int
}

func NewWorld(prop string) *World {
	enc := zapcore.NewConsoleEncoder(zap.NewProductionEncoderConfig())
	lvl := zap.NewAtomicLevelAt(zapcore.DebugLevel)
	ml := logging.NewMemLogger(enc, lvl)
	w := &World{Prop: prop, ML: ml, Stats: sim.Stats{}, Lvl: lvl}
	w.Cores = []zapcore.Core{ml.GetCore()}
	w.Loggers = []*zap.Logger{zap.New(ml.GetCore())}
	return w
}

func (w *World) Fail(oracle, class, f string, a ...interface{}) {
	if w.V == nil {
		w.V = &sim.Violation{Property: w.Prop, Oracle: oracle, Class: class, Detail: fmt.Sprintf(f, a...), Step: w.Step}
	}
}

func (w *World) guard(what string, f func()) (panicked bool) {
	defer func() {
		if r := recover(); r != nil {
			panicked = true
			s := fmt.Sprint(r)
			if len(s) > 60 {
				s = s[:60]
			}
			w.Fail("panic", "panic:"+s, "%s panicked: %v", what, r)
		}
	}()
	f()
	return false
}

// Derive creates a logger with extra fields from logger l.
func (w *World) Derive(l, kind int) {
	if l < 0 || l >= len(w.Loggers) {
		return
	}
	w.guard("With", func() {
		f := zap.Int("d", len(w.Loggers))
		fs := []zapcore.Field{f}
		switch (kind / 2) % 8 { // the kinds of field lists callers derive loggers with
		case 1:
			fs = []zapcore.Field{zap.Error(nil)} // zap turns a nil error into a no-op (skip) field
		case 2:
			fs = []zapcore.Field{zap.Skip()}
		case 3:
			fs = []zapcore.Field{f, zap.String("s", "x"), zap.Bool("b", true)}
		case 4:
			fs = []zapcore.Field{zap.Namespace("ns"), f}
		case 5:
			fs = []zapcore.Field{}
		}
		if (kind/2)%8 != 0 {
			w.Stats.Inc("probe.derived-with-unusual-fields")
		}
		if kind%2 == 0 {
			c := w.Cores[l].With(fs)
			w.Cores = append(w.Cores, c)
			w.Loggers = append(w.Loggers, zap.New(c))
		} else {
			lg := w.Loggers[l].With(fs...)
			w.Cores = append(w.Cores, lg.Core())
			w.Loggers = append(w.Loggers, lg)
		}
	})
	w.Stats.Inc("probe.derived-logger")
	if len(w.Written) > 0 {
		w.Stats.Inc("probe.derived-after-writes")
	}
}

// NextID allocates a unique message id.
func (w *World) NextID(tag string) string {
	w.nid++
	return fmt.Sprintf("m%s%d", tag, w.nid)
}

// Write logs one entry through logger l (sequential runs record it in the model here).
func (w *World) Write(l int) {
	if l < 0 || l >= len(w.Loggers) {
		return
	}
	id := w.NextID("")
	w.guard("Info", func() { w.Loggers[l].Info(id, zap.String("id", id)) })
	if !w.Lvl.Enabled(zapcore.InfoLevel) {
		w.Stats.Inc("probe.write-below-the-buffer-level")
		return // filtered by the logger (Check), never handed to the buffer
	}
	w.Written = append(w.Written, id)
	w.Stats.Inc("mut")
	if l > 0 {
		w.Stats.Inc("probe.write-through-derived")
	}
}

var levels = []zapcore.Level{zapcore.DebugLevel, zapcore.InfoLevel, zapcore.WarnLevel, zapcore.ErrorLevel}

// WriteAt logs through logger l at one of four levels; the logger filters what the buffer's level excludes.
func (w *World) WriteAt(l, lv int) {
	if l < 0 || l >= len(w.Loggers) {
		return
	}
	level := levels[((lv%4)+4)%4]
	id := w.NextID("")
	w.guard("write at a level", func() {
		if ce := w.Loggers[l].Check(level, id); ce != nil {
			ce.Write(zap.String("id", id))
		}
	})
	if w.Lvl.Enabled(level) {
		w.Written = append(w.Written, id)
		w.Stats.Inc("mut")
	} else {
		w.Stats.Inc("probe.write-below-the-buffer-level")
	}
}

// CoreWrite hands an entry straight to a core's Write (what a wrapping core or a tee does after ITS check):
// "If called, Write should always log the Entry" - whatever the buffer's own level says.
func (w *World) CoreWrite(l, lv int) {
	if l < 0 || l >= len(w.Cores) {
		return
	}
	level := levels[((lv%4)+4)%4]
	id := w.NextID("")
	w.guard("Core.Write", func() {
		w.Cores[l].Write(zapcore.Entry{Level: level, Message: id, Time: time.Unix(1700000000, 0)}, []zapcore.Field{zap.String("id", id)})
	})
	w.Written = append(w.Written, id)
	w.Stats.Inc("mut")
	if !w.Lvl.Enabled(level) {
		w.Stats.Inc("probe.core-write-below-the-buffer-level")
	}
}

// SplitWrite: an entry is accepted by Check, the buffer's level is raised, then the checked entry is written.
func (w *World) SplitWrite(l, lv int) {
	if l < 0 || l >= len(w.Loggers) {
		return
	}
	id := w.NextID("")
	var accepted bool
	w.guard("Check / level change / Write", func() {
		ce := w.Loggers[l].Check(zapcore.InfoLevel, id)
		accepted = ce != nil
		w.Lvl.SetLevel(levels[((lv%4)+4)%4])
		if ce != nil {
			ce.Write(zap.String("id", id))
		}
	})
	if accepted {
		w.Written = append(w.Written, id)
		w.Stats.Inc("mut")
		w.Stats.Inc("probe.checked-entry-written-after-level-change")
	}
}

// FieldOK: an entry written as Info(id, zap.String("id", id)) must still carry exactly that field.
func FieldOK(msg string, ctx []zapcore.Field) bool {
	return len(ctx) == 1 && ctx[0].Key == "id" && ctx[0].String == msg
}

var idRe = regexp.MustCompile(`\bm[a-z]*\d+\b`)

// Check compares GetLogs / WriteLogs with the model.
func (w *World) Check(when string) {
	if w.V != nil {
		return
	}
	n := len(w.Written)
	keep := n
	if keep > logging.BufferSize {
		keep = logging.BufferSize
		w.Stats.Inc("probe.ring-wrapped")
	}
	want := make([]string, 0, keep)
	for i := n - 1; i >= n-keep; i-- {
		want = append(want, w.Written[i])
	}
	var got []string
	badField := ""
	if w.guard("GetLogs", func() {
		for _, e := range w.ML.GetLogs() {
			if e != nil {
				got = append(got, e.Entry.Message) // copied out immediately: the buffer reuses entry objects
				if !FieldOK(e.Entry.Message, e.Context) && badField == "" {
					badField = e.Entry.Message
				}
			}
		}
	}) {
		return
	}
	if badField != "" {
		w.Fail("c20.getlogs", when+":entry-carries-foreign-fields", "entry %s is retained with fields that are not the ones it was written with", badField)
		return
	}
	if d := diffSeq(want, got); d != "" {
		w.Fail("c20.getlogs", when+":"+classify(want, got), "GetLogs after %d writes through %d loggers: %s", n, len(w.Loggers), d)
		return
	}
	var buf bytes.Buffer
	// all four detail levels (message only ... fields ... stack traces): the retained ids and their order are the same
	level := n % 4
	if w.guard("WriteLogs", func() { w.ML.WriteLogs(&buf, level) }) {
		return
	}
	var ids []string
	for _, line := range strings.Split(buf.String(), "\n") {
		if m := idRe.FindString(line); m != "" { // one entry per line; the id appears as message and as field
			ids = append(ids, m)
		}
	}
	if d := diffSeq(want, ids); d != "" {
		w.Fail("c20.writelogs", when+":"+classify(want, ids), "WriteLogs output: %s", d)
	}
	w.Stats.Inc("check.buffer")
}

func classify(want, got []string) string {
	ws := map[string]bool{}
	for _, x := range want {
		ws[x] = true
	}
	seen := map[string]bool{}
	dup, foreign := false, false
	for _, x := range got {
		if seen[x] {
			dup = true
		}
		seen[x] = true
		if !ws[x] {
			foreign = true
		}
	}
	lost := false
	for _, x := range want {
		if !seen[x] {
			lost = true
		}
	}
	var c []string
	if lost {
		c = append(c, "lost")
	}
	if dup {
		c = append(c, "duplicated")
	}
	if foreign {
		c = append(c, "older-entry-kept")
	}
	if len(c) == 0 {
		c = append(c, "order")
	}
	sort.Strings(c)
	return strings.Join(c, "+")
}

func diffSeq(want, got []string) string {
	if len(want) == len(got) {
		same := true
		for i := range want {
			if want[i] != got[i] {
				same = false
				break
			}
		}
		if same {
			return ""
		}
	}
	head := func(s []string) string {
		if len(s) > 6 {
			return fmt.Sprint(s[:6]) + "..."
		}
		return fmt.Sprint(s)
	}
	return fmt.Sprintf("want %d entries %s, got %d entries %s", len(want), head(want), len(got), head(got))
}

// Exec runs the sequential part of a script.
func Exec(sc sim.Script) *sim.Outcome {
	s := sc.(*Script)
	if len(s.Tasks) > 0 {
		return ExecSched(s)
	}
	w := NewWorld(s.Prop)
	for i, op := range s.Ops {
		w.Step = i
		w.Stats.Inc("op." + op.K)
		w.Apply(op)
		if w.V != nil {
			break
		}
	}
	if w.V == nil {
		w.Step = len(s.Ops)
		w.Check("end")
	}
	return w.Outcome()
}

func (w *World) Apply(op Op) {
	switch op.K {
	case "setlevel":
		w.Lvl.SetLevel(levels[((op.N%4)+4)%4])
	case "writeat":
		w.WriteAt(op.L, op.N)
	case "corewrite":
		w.CoreWrite(op.L, op.N)
	case "splitwrite":
		w.SplitWrite(op.L, op.N)
	case "wiring":
		w.wiring(op)
	case "derive":
		w.Derive(op.L, op.N)
	case "write":
		w.Write(op.L)
	case "burst":
		for i := 0; i < op.N && w.V == nil; i++ {
			w.Write(op.L)
		}
	case "check":
		w.Check("mid")
	}
}

func (w *World) Outcome() *sim.Outcome {
	o := &sim.Outcome{V: w.V, Stats: w.Stats}
	o.Digest = sim.Digest(fmt.Sprint(len(w.Written), len(w.Loggers), w.Stats["check.buffer"]))
	o.States = []string{sim.Digest(fmt.Sprint(len(w.Loggers), len(w.Written) > logging.BufferSize, len(w.Written)%7))}
	o.Nontrivial = w.Stats["mut"] >= 2 && w.Stats["probe.derived-logger"] >= 1
	return o
}

// Gen generates a sequential script.
func Gen(r *sim.Rand, tier string) sim.Script {
	s := &Script{Prop: "C20"}
	nOps := 3 + r.Intn(30)
	nl := 1
	big := r.Chance(1, 6) // totals at and far above the capacity
	if r.Chance(1, 60) {  // the package's own wiring: InitLogging, four root loggers, three dump handlers
		s.Ops = append(s.Ops, Op{K: "wiring", L: r.Intn(1000), N: r.Intn(1000)})
	}
	lv := r.Chance(1, 4) // levels: the buffer's enabler changes, loggers write at all levels, cores are written to directly
	for i := 0; i < nOps; i++ {
		if lv && r.Chance(1, 3) {
			switch r.Intn(4) {
			case 0:
				s.Ops = append(s.Ops, Op{K: "setlevel", N: r.Intn(4)})
			case 1:
				s.Ops = append(s.Ops, Op{K: "writeat", L: r.Intn(nl), N: r.Intn(4)})
			case 2:
				s.Ops = append(s.Ops, Op{K: "corewrite", L: r.Intn(nl), N: r.Intn(4)})
			case 3:
				s.Ops = append(s.Ops, Op{K: "splitwrite", L: r.Intn(nl), N: r.Intn(4)})
			}
			continue
		}
		switch r.Weighted([]int{5, 14, 3, 4}) {
		case 0:
			s.Ops = append(s.Ops, Op{K: "derive", L: r.Intn(nl), N: r.Intn(2) + 2*[]int{0, 0, 0, 1, 2, 3, 4, 5}[r.Intn(8)]})
			nl++
		case 1:
			s.Ops = append(s.Ops, Op{K: "write", L: r.Intn(nl)})
		case 2:
			n := 1 + r.Intn(40)
			if big {
				n = []int{500, 1000, 1023, 1024, 1025, 1500, 3000}[r.Intn(7)]
			}
			s.Ops = append(s.Ops, Op{K: "burst", L: r.Intn(nl), N: n})
		case 3:
			s.Ops = append(s.Ops, Op{K: "check"})
		}
	}
	return s
}

// GenSched generates a concurrent script: setup, then 2-4 writer tasks and a reader.
func GenSched(r *sim.Rand, tier string) sim.Script {
	s := &Script{Prop: "C20"}
	nl := 1
	for i := r.Intn(5); i > 0; i-- {
		if r.Chance(1, 2) {
			s.Ops = append(s.Ops, Op{K: "derive", L: r.Intn(nl), N: r.Intn(2) + 2*[]int{0, 0, 0, 1, 2, 3, 4, 5}[r.Intn(8)]})
			nl++
		} else {
			s.Ops = append(s.Ops, Op{K: "write", L: r.Intn(nl)})
		}
	}
	if r.Chance(1, 12) {
		s.Ops = append(s.Ops, Op{K: "burst", L: r.Intn(nl), N: 1015 + r.Intn(12)})
	}
	nt := 2 + r.Intn(3)
	for t := 0; t < nt; t++ {
		var ops []Op
		local := nl
		for i := 1 + r.Intn(5); i > 0; i-- {
			switch r.Weighted([]int{10, 2, 2, 2, 2}) {
			case 0:
				ops = append(ops, Op{K: "write", L: r.Intn(local)})
			case 1:
				ops = append(ops, Op{K: "burst", L: r.Intn(local), N: 2 + r.Intn(4)})
			case 2:
				ops = append(ops, Op{K: "derive", L: r.Intn(local)})
				local++
			case 3:
				ops = append(ops, Op{K: "check"})
			case 4:
				ops = append(ops, Op{K: "dump"})
			}
		}
		s.Tasks = append(s.Tasks, ops)
	}
	s.Strategy = []string{"rw", "rw", "pct", "rub", "stall"}[r.Intn(5)]
	s.SchedSeed = r.U64()
	if r.Chance(1, 15) {
		// lapping: one task writes a whole ring's worth of entries in one go while the others are somewhere inside
		// a write of their own (run-until-blocked / priority schedules let it run through)
		t := r.Intn(len(s.Tasks))
		at := r.Intn(len(s.Tasks[t]) + 1)
		lap := Op{K: "burst", L: 0, N: 1024 + r.Intn(8)}
		s.Tasks[t] = append(append(append([]Op{}, s.Tasks[t][:at]...), lap), s.Tasks[t][at:]...)
		s.Strategy = []string{"stall", "stall", "rub", "pct"}[r.Intn(4)]
	}
	return s
}

// GenBoth: the check mixes sequential histories (plain build) and scheduled ones (instrumented build).
func GenBoth(r *sim.Rand, tier string) sim.Script {
	if SchedBuild {
		if r.Chance(1, 5) {
			return Gen(r, tier)
		}
		return GenSched(r, tier)
	}
	return Gen(r, tier)
}

func init() {
	sim.Register(&sim.Engine{Prop: "C20", Gen: GenBoth, Exec: Exec, Decode: Decode, Sched: true, Concretize: concretize})
}
