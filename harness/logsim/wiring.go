package logsim

import (
	"fmt"
	"net/http/httptest"
	"os"
	"strings"

	"github.com/0chain/common/core/logging"
	"go.uber.org/zap"

	"verif/harness/sim"
)

// wiring: the package's own set-up (InitLogging) and its three HTTP handlers. Entries written through one of
// the package's root loggers (and loggers derived from it) must show in that logger's dump, newest first, and in
// no other dump; the health-check logger has no dump. W[i] = number of entries written through logger i
// (0 main, 1 node-to-node, 2 memory usage, 3 health check), alternating between the root and a derived logger.
func (w *World) wiring(op Op) {
	dir, err := os.MkdirTemp("", "verif-c20-")
	if err != nil {
		return
	}
	defer os.RemoveAll(dir)
	if w.guard("InitLogging", func() { logging.InitLogging("development", dir) }) {
		return
	}
	defer func() { logging.Logger = zap.NewNop() }()
	roots := []*zap.Logger{logging.Logger, logging.N2n, logging.MemUsage, logging.HCLogger}
	names := []string{"main", "peer", "mem", "hc"}
	tag := "w" // letters only: ids are m<letters><digits>
	for x := op.L; ; x /= 26 {
		tag += string(rune('a' + x%26))
		if x < 26 {
			break
		}
	}
	tag += "x"
	written := make([][]string, 4)
	counts := []int{1 + op.N%5, 1 + (op.N/5)%4, (op.N / 20) % 3, 1 + (op.N/60)%3}
	for round := 0; round < 5; round++ {
		for i, l := range roots {
			if round >= counts[i] {
				continue
			}
			id := fmt.Sprintf("m%s%s%d", tag, names[i], round)
			lg := l
			if round%2 == 1 {
				lg = l.With(zap.Int("d", round))
			}
			if w.guard("write through "+names[i], func() { lg.Error(id, zap.String("id", id)) }) {
				return
			}
			written[i] = append(written[i], id)
		}
	}
	w.Stats.Inc("probe.package-wiring-and-handlers")
	handlers := []func(*httptest.ResponseRecorder){
		func(rec *httptest.ResponseRecorder) { logging.LogWriter(rec, httptest.NewRequest("GET", "/logs?detail=2", nil)) },
		func(rec *httptest.ResponseRecorder) { logging.N2NLogWriter(rec, httptest.NewRequest("GET", "/n2n?detail=1", nil)) },
		func(rec *httptest.ResponseRecorder) { logging.MemLogWriter(rec, httptest.NewRequest("GET", "/mem?detail=3", nil)) },
	}
	for hi, h := range handlers {
		rec := httptest.NewRecorder()
		if w.guard("handler "+names[hi], func() { h(rec) }) {
			return
		}
		var got []string
		for _, line := range strings.Split(rec.Body.String(), "\n") {
			for _, m := range idRe.FindAllString(line, 1) {
				if strings.HasPrefix(m, "m"+tag) {
					got = append(got, m)
				}
			}
		}
		var want []string
		for i := len(written[hi]) - 1; i >= 0; i-- {
			want = append(want, written[hi][i])
		}
		if d := diffSeq(want, got); d != "" {
			w.Fail("c20.wiring", "dump-of-"+names[hi]+":"+classify(want, got), "the %s dump after writing %v / %v / %v / %v through the four root loggers: %s", names[hi], written[0], written[1], written[2], written[3], d)
			return
		}
	}
	w.Stats.Inc("check.buffer")
}

var _ = sim.Digest
