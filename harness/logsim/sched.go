//go:build simsched

package logsim

import (
	"bytes"
	"fmt"
	"regexp"
	"strings"

	"github.com/0chain/common/core/logging"
	"go.uber.org/zap"

	"verif/harness/sched"
	"verif/harness/sim"
)

var raceLog = sched.OpenRaceLog()

const SchedBuild = true

var lineRe = regexp.MustCompile(`^\S+\tINFO\t(m[a-z]*\d+)\t\{"id": "(m[a-z]*\d+)"\}$`)

// ExecSched: sequential setup (Ops), then writer/reader tasks under the seeded scheduler.
func ExecSched(s *Script) *sim.Outcome {
	w := NewWorld(s.Prop)
	for i, op := range s.Ops {
		w.Step = i
		w.Apply(op)
		if w.V != nil {
			return w.Outcome()
		}
	}
	setup := append([]string{}, w.Written...)
	nt := len(s.Tasks)
	written := make([][]string, nt) // per task, program order
	snaps := make([][][]string, nt) // per task: GetLogs snapshots (messages copied out)
	dumps := make([][]string, nt)   // per task: WriteLogs outputs
	fns := make([]func(), nt)
	est := 0
	for ti := range s.Tasks {
		ti := ti
		est += 30 * len(s.Tasks[ti])
		for _, op := range s.Tasks[ti] {
			if op.K == "burst" {
				est += 8 * op.N
			}
		}
		loggers := append([]*zap.Logger{}, w.Loggers...)
		fns[ti] = func() {
			n := 0
			write := func(l int) {
				if l < 0 || l >= len(loggers) {
					l = 0
				}
				n++
				id := fmt.Sprintf("m%c%d", 'a'+ti, n)
				loggers[l].Info(id, zap.String("id", id))
				written[ti] = append(written[ti], id)
			}
			for _, op := range s.Tasks[ti] {
				switch op.K {
				case "write":
					write(op.L)
				case "burst":
					for i := 0; i < op.N; i++ {
						write(op.L)
					}
				case "derive":
					l := op.L
					if l < 0 || l >= len(loggers) {
						l = 0
					}
					loggers = append(loggers, loggers[l].With(zap.Int("d", len(loggers))))
				case "check":
					var msgs []string
					for _, e := range w.ML.GetLogs() {
						if e != nil {
							msgs = append(msgs, e.Entry.Message)
						}
					}
					snaps[ti] = append(snaps[ti], msgs)
				case "dump":
					var buf bytes.Buffer
					w.ML.WriteLogs(&buf, logging.IncludeFields)
					dumps[ti] = append(dumps[ti], buf.String())
				}
			}
		}
	}
	plan := sched.Plan{Strategy: s.Strategy, Seed: s.SchedSeed, Choices: s.Schedule}
	if plan.Strategy == "" {
		plan.Strategy = "replay"
	}
	res := sched.Run(plan, est, 400000, fns...)
	for _, t := range s.Tasks {
		for _, op := range t {
			w.Stats.Inc("op.task-" + op.K)
		}
	}
	w.Stats.Add("sim.steps", int64(res.Steps))
	w.Stats.Add("sched.switches", int64(res.Switches))
	w.Stats.Add("sched.decisions", int64(res.Decisions))
	w.Stats.Inc("sched.strategy." + plan.Strategy)
	if res.Err != nil {
		w.Fail("sched."+strings.Fields(res.Err.Error())[0], "scheduler", "%v", res.Err)
	}
	for ti, p := range res.Panics {
		if p != nil {
			w.Fail("panic", "panic:"+fmt.Sprint(p), "task %d panicked: %v", ti, p)
		}
	}
	for _, sig := range raceLog.New("github.com/0chain/common") {
		w.Fail("race", "race:"+sig, "data race reported by the race detector: %s", sig)
	}
	total := len(setup)
	raceOnly := sched.RaceEnabled // the -race build decides only the race / panic / deadlock clauses
	for _, x := range written {
		total += len(x)
		w.Stats.Add("mut", int64(len(x)))
	}
	if w.V == nil && !raceOnly {
		var got []string
		for _, e := range w.ML.GetLogs() {
			if e != nil {
				got = append(got, e.Entry.Message)
				if !FieldOK(e.Entry.Message, e.Context) {
					w.Fail("c20.concurrent", "final:entry-carries-foreign-fields", "entry %s is retained with fields that are not the ones it was written with", e.Entry.Message)
				}
			}
		}
		w.judge("final", got, setup, written, total, true)
		for ti := range snaps {
			for _, sn := range snaps[ti] {
				w.judge(fmt.Sprintf("snapshot-by-task-%d", ti), sn, setup, written, total, false)
			}
		}
		for ti := range dumps {
			for _, d := range dumps[ti] {
				// one line per entry, the entry's id as message and as its field, nothing else
				var ids []string
				for _, line := range strings.Split(d, "\n") {
					if line == "" {
						continue
					}
					m := lineRe.FindStringSubmatch(line)
					if m == nil || m[1] != m[2] {
						w.Fail("c20.concurrent", "dump:garbled-line", "WriteLogs by task %d wrote the line %q: not one entry with its own field", ti, line)
						break
					}
					ids = append(ids, m[1])
				}
				w.Stats.Inc("probe.concurrent-dump")
				w.judge(fmt.Sprintf("dump-by-task-%d", ti), ids, setup, written, total, false)
			}
		}
	}
	o := w.Outcome()
	o.Taken = res.Taken
	o.States = []string{res.Digest}
	o.Digest = sim.Digest(res.Digest, fmt.Sprint(res.Steps, total))
	o.Nontrivial = res.Switches >= 1 && total >= 2
	return o
}

// judge: the buffer content must be the most recent entries of some
// linearisation that respects every task's program order.
func (w *World) judge(when string, got, setup []string, written [][]string, total int, final bool) {
	if w.V != nil {
		return
	}
	class := when
	if !final {
		class = "snapshot"
	}
	pos := map[string]int{} // id -> position in got (0 = newest)
	for i, id := range got {
		if _, dup := pos[id]; dup {
			w.Fail("c20.concurrent", class+":duplicated", "%s: entry %s appears twice in GetLogs", when, id)
			return
		}
		pos[id] = i
	}
	if final {
		want := total
		if want > logging.BufferSize {
			want = logging.BufferSize
			w.Stats.Inc("probe.ring-wrapped")
		}
		if len(got) != want {
			w.Fail("c20.concurrent", class+":lost", "%s: %d entries written through %d tasks, buffer returns %d (want %d)", when, total, len(written), len(got), want)
			return
		}
	}
	// per sequence: the retained ids are a suffix and appear newest first
	check := func(name string, seq []string) (allKept bool, anyKept bool) {
		firstKept := -1
		for i, id := range seq {
			if _, ok := pos[id]; ok {
				if firstKept < 0 {
					firstKept = i
				}
			} else if firstKept >= 0 && final {
				w.Fail("c20.concurrent", class+":lost", "%s: %s entry %s is missing although the older %s is retained", when, name, id, seq[firstKept])
				return
			}
		}
		if firstKept >= 0 {
			anyKept = true
			for i := firstKept + 1; i < len(seq); i++ {
				pi, ok1 := pos[seq[i]]
				pj, ok2 := pos[seq[i-1]]
				if ok1 && ok2 && pi > pj {
					w.Fail("c20.concurrent", class+":order", "%s: %s entries %s and %s are out of order", when, name, seq[i-1], seq[i])
					return
				}
			}
		}
		return firstKept == 0 || len(seq) == 0, anyKept
	}
	allTasksComplete := true
	oldestTask := -1
	for ti, seq := range written {
		all, _ := check(fmt.Sprintf("task %d's", ti), seq)
		if w.V != nil {
			return
		}
		if !all {
			allTasksComplete = false
		}
		for _, id := range seq {
			if p, ok := pos[id]; ok && p > oldestTask {
				oldestTask = p
			}
		}
	}
	_, anySetup := check("setup", setup)
	if w.V != nil {
		return
	}
	if final && anySetup && !allTasksComplete {
		w.Fail("c20.concurrent", class+":older-entry-kept", "%s: an entry written before the tasks started is retained although a newer task entry was dropped", when)
		return
	}
	for _, id := range setup {
		if p, ok := pos[id]; ok && p < oldestTask {
			w.Fail("c20.concurrent", class+":order", "%s: setup entry %s is reported newer than a task entry", when, id)
			return
		}
	}
	w.Stats.Inc("check.buffer")
}

func concretize(sc sim.Script, o *sim.Outcome) sim.Script {
	s := sc.(*Script)
	if s.Strategy == "replay" || len(o.Taken) == 0 {
		return sc
	}
	c := *s
	c.Strategy = "replay"
	c.Schedule = append([]int{}, o.Taken...)
	return &c
}
