//go:build !simsched

package logsim

import "verif/harness/sim"

// ExecSched needs the instrumented build (tag simsched).
func ExecSched(s *Script) *sim.Outcome {
	return &sim.Outcome{Stats: sim.Stats{"skipped.needs-instrumented-build": 1}}
}

const SchedBuild = false

func concretize(sc sim.Script, o *sim.Outcome) sim.Script { return sc }
