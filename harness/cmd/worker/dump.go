package main

import (
	"encoding/json"
	"fmt"

	"verif/harness/sim"
)

// dumpScript prints the script of run i (debugging aid: worker -dump i).
func dumpScript(prop string, seed, i uint64, tier string) {
	e := sim.Engines[prop]
	sc := e.Gen(sim.NewRand(sim.RunSeed(seed, prop, i)), tier)
	b, _ := json.Marshal(sc)
	fmt.Println(string(b))
}
