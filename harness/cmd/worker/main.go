// worker executes seeded runs of one property's engine, or replays a file.
package main

import (
	"encoding/json"
	"flag"
	"fmt"
	"os"
	"path/filepath"
	"strings"
	"time"

	_ "verif/harness/engines"
	"verif/harness/sim"
)

func main() {
	prop := flag.String("prop", "", "property id")
	seed := flag.Uint64("seed", 1, "master seed")
	from := flag.Uint64("from", 0, "first run index")
	count := flag.Uint64("count", 100, "number of runs")
	tier := flag.String("tier", "quick", "quick|thorough")
	budget := flag.Duration("budget", time.Minute, "wall-clock cap")
	out := flag.String("out", "", "result file")
	replayDir := flag.String("replaydir", ".", "where replay files go")
	replay := flag.String("replay", "", "replay file to execute")
	known := flag.String("known", "", "comma separated oracle|class pairs that are known findings (not shrunk)")
	digests := flag.Bool("digests", false, "record per-run event-log digests")
	shrinkBudget := flag.Int("shrink", 3000, "max executions spent shrinking one violation")
	verbose := flag.Bool("v", false, "verbose")
	build := flag.String("build", "", "name of the build variant (recorded in replay files)")
	dump := flag.Int64("dump", -1, "print the script of run index N and exit")
	cur := flag.String("cur", "", "file that always holds the index of the run being executed (read by the driver if this process dies)")
	emit := flag.String("emit", "", "write the script of run index -from as a replay file for a process crash (class in -emitclass) and exit")
	emitClass := flag.String("emitclass", "", "violation class recorded by -emit")
	flag.Parse()
	if *emit != "" {
		e := sim.Engines[*prop]
		if e == nil {
			os.Exit(2)
		}
		sc := e.Gen(sim.NewRand(sim.RunSeed(*seed, *prop, *from)), *tier)
		b, _ := json.Marshal(sc)
		v := &sim.Violation{Property: *prop, Oracle: "crash", Class: *emitClass, Detail: "the process executing this script died: " + *emitClass + " (not minimised: a dead process cannot shrink its script)"}
		rp := sim.Replay{Property: *prop, Seed: *seed, RunIndex: *from, Violation: v, Script: b, Build: *build}
		rb, _ := json.MarshalIndent(rp, "", " ")
		if err := os.WriteFile(*emit, rb, 0644); err != nil {
			fmt.Fprintln(os.Stderr, "worker: cannot write replay:", err)
			os.Exit(2)
		}
		return
	}
	var curF *os.File
	if *cur != "" {
		var err error
		if curF, err = os.Create(*cur); err != nil {
			fmt.Fprintln(os.Stderr, "worker:", err)
			os.Exit(2)
		}
	}
	if *dump >= 0 {
		dumpScript(*prop, *seed, uint64(*dump), *tier)
		return
	}

	if *replay != "" {
		os.Exit(doReplay(*replay, *verbose))
	}
	e := sim.Engines[*prop]
	if e == nil {
		fmt.Fprintf(os.Stderr, "worker: no engine for %q\n", *prop)
		os.Exit(2)
	}
	knownSet := map[string]bool{}
	for _, k := range strings.Split(*known, ",") {
		if k != "" {
			knownSet[k] = true
		}
	}
	res := &sim.WorkerResult{Property: *prop, Seed: *seed, From: *from, Count: *count, Stats: sim.Stats{}, Violations: []sim.FoundViolation{}}
	if *digests {
		res.LogDigests = map[string]string{}
	}
	t0 := time.Now()
	seenScripts := map[string]bool{}
	seenStates := map[string]bool{}
	seenViol := map[string]bool{}
	res.StoppedBy = "count"
	for i := *from; i < *from+*count; i++ {
		if time.Since(t0) > *budget {
			res.StoppedBy = "budget"
			break
		}
		if curF != nil {
			curF.WriteAt([]byte(fmt.Sprintf("%020d", i)), 0)
		}
		rs := sim.RunSeed(*seed, *prop, i)
		sc := e.Gen(sim.NewRand(rs), *tier)
		o := e.Exec(sc)
		res.Runs++
		res.Stats.Merge(o.Stats)
		if *digests {
			res.LogDigests[fmt.Sprint(i)] = o.Digest
		}
		if o.Nontrivial {
			res.Nontrivial++
			d := sim.JSONDigest(sc)
			if !seenScripts[d] {
				seenScripts[d] = true
			}
		}
		for _, s := range o.States {
			seenStates[s] = true
		}
		if len(res.Samples) < 3 && o.Nontrivial && sc.Len() <= 12 {
			b, _ := json.Marshal(sc)
			res.Samples = append(res.Samples, b)
		}
		if i%97 == 0 && o.V == nil {
			// in-process determinism re-check of a run that found nothing
			o2 := e.Exec(sc)
			res.Recheck++
			if o2.V != nil {
				// the re-execution found a violation the first one did not: the code under test is not a
				// function of the script here (e.g. it lets the iteration order of a Go map decide the order of
				// its writes). That is reported as the violation it is, not as a harness defect.
				res.Stats.Inc("recheck.violation-only-on-reexecution")
				o = o2
			} else if o2.Digest != o.Digest {
				res.RecheckDiff++
			}
		}
		if o.V != nil {
			key := o.V.Oracle + "|" + o.V.Class
			res.Stats.Inc("violation." + key)
			if knownSet[key] {
				res.Stats.Inc("known." + key)
				continue
			}
			if seenViol[key] || len(res.Violations) >= 8 {
				continue
			}
			seenViol[key] = true
			min, mv, execs := sim.Script(sc), o.V, 0
			fatal := strings.HasPrefix(o.V.Oracle, "sched.") // deadlock / step cap: tasks are still parked, stop this worker
			switch {
			case o.V.Oracle == "race" || fatal:
				// the race detector reports a given race once per process, so the script cannot
				// be re-executed here; the driver confirms the replay in a fresh process
				if e.Concretize != nil {
					min = e.Concretize(sc, o)
				}
			default:
				start := sim.Script(sc)
				if e.Concretize != nil {
					c := e.Concretize(sc, o)
					if oc := e.Exec(c); oc.V != nil && oc.V.Oracle == o.V.Oracle && oc.V.Class == o.V.Class {
						start = c
					}
				}
				min, mv, execs = sim.Shrink(start, e.Exec, o.V, *shrinkBudget)
			}
			mkey := mv.Oracle + "|" + mv.Class
			if seenViol["min:"+mkey] {
				continue
			}
			seenViol["min:"+mkey] = true
			b, _ := json.Marshal(min)
			rp := sim.Replay{Property: *prop, Seed: *seed, RunIndex: i, Violation: mv, Script: b, Build: *build}
			tag := ""
			if *build != "" && *build != "plain" {
				tag = "-" + *build
			}
			path := filepath.Join(*replayDir, fmt.Sprintf("%s-%d-%d%s.json", *prop, *seed, i, tag))
			rb, _ := json.MarshalIndent(rp, "", " ")
			if err := os.WriteFile(path, rb, 0644); err != nil {
				fmt.Fprintln(os.Stderr, "worker: cannot write replay:", err)
				os.Exit(2)
			}
			res.Violations = append(res.Violations, sim.FoundViolation{RunIndex: i, RunSeed: rs, V: mv, ReplayPath: path, ShrinkExecs: execs, OrigLen: sc.Len(), MinLen: min.Len(), Build: *build})
			if fatal {
				res.StoppedBy = "fatal-scheduler-error"
				break
			}
		}
	}
	if len(res.Samples) == 0 && res.Runs > 0 {
		sc := e.Gen(sim.NewRand(sim.RunSeed(*seed, *prop, *from)), *tier)
		b, _ := json.Marshal(sc)
		res.Samples = append(res.Samples, b)
	}
	for d := range seenScripts {
		res.Scripts = append(res.Scripts, d)
	}
	for d := range seenStates {
		res.States = append(res.States, d)
	}
	res.WallS = time.Since(t0).Seconds()
	b, _ := json.Marshal(res)
	if *out == "" {
		os.Stdout.Write(b)
		return
	}
	if err := os.WriteFile(*out, b, 0644); err != nil {
		fmt.Fprintln(os.Stderr, "worker:", err)
		os.Exit(2)
	}
}

func doReplay(path string, verbose bool) int {
	b, err := os.ReadFile(path)
	if err != nil {
		fmt.Fprintln(os.Stderr, "replay:", err)
		return 2
	}
	var rp sim.Replay
	if err := json.Unmarshal(b, &rp); err != nil {
		fmt.Fprintln(os.Stderr, "replay:", err)
		return 2
	}
	e := sim.Engines[rp.Property]
	if e == nil {
		fmt.Fprintf(os.Stderr, "replay: no engine for %q\n", rp.Property)
		return 2
	}
	sc, err := e.Decode(rp.Script)
	if err != nil {
		fmt.Fprintln(os.Stderr, "replay: bad script:", err)
		return 2
	}
	o := e.Exec(sc)
	attempts := 1
	if rp.Violation != nil && rp.Violation.Oracle == "race" {
		// The schedule replays exactly, but whether the race detector reports a race also depends on
		// process history outside the scheduler's control (one-time initialisation and sync.Pool reuse
		// create happens-before edges in the first executions of a fresh process; in race builds
		// sync.Pool drops items at random). The script is therefore re-executed until the detector
		// reports (it reports a given race once per process, so the first report ends the loop).
		for o.V == nil && attempts < 40 {
			o = e.Exec(sc)
			attempts++
		}
	}
	outp := map[string]interface{}{"property": rp.Property, "violation": o.V, "digest": o.Digest, "executions": attempts}
	if rp.Violation != nil {
		outp["expected_oracle"] = rp.Violation.Oracle
		outp["expected_class"] = rp.Violation.Class
	}
	ob, _ := json.Marshal(outp)
	fmt.Println(string(ob))
	if o.V == nil {
		return 0
	}
	if rp.Violation != nil && (o.V.Oracle != rp.Violation.Oracle) {
		return 3
	}
	return 1
}
