// Package refwmpt is an independent reference for the weighted Merkle trie:
// a sorted map with total weight and cumulative-weight block ownership, and
// the root hash computed from the canonical shape of the sorted content.
// It imports nothing from core/util (only sha3).
//
//	value hash  = sha3-256( BE64(weight) || value )
//	short hash  = sha3-256( nibbles || childHash )
//	branch hash = sha3-256( BE64(sum of child weights) || 16 x childHash ), absent child = sha3-256("")
//	empty trie  = sha3-256("")
package refwmpt

import (
	"encoding/binary"
	"sort"

	"golang.org/x/crypto/sha3"
)

type Entry struct {
	Key    string // 32 raw bytes
	Value  []byte
	Weight uint64
}

func h(parts ...[]byte) []byte {
	d := sha3.New256()
	for _, p := range parts {
		d.Write(p)
	}
	return d.Sum(nil)
}

var Empty = h()

// ValueHash is the hash under which an entry's value node is stored.
func ValueHash(e Entry) []byte { return h(be(e.Weight), e.Value) }

func be(w uint64) []byte {
	var b [8]byte
	binary.BigEndian.PutUint64(b[:], w)
	return b[:]
}

func nibbles(k string) []byte {
	n := make([]byte, len(k)*2)
	for i := 0; i < len(k); i++ {
		n[2*i] = k[i] >> 4
		n[2*i+1] = k[i] & 15
	}
	return n
}

type item struct {
	rest []byte
	e    Entry
}

// Sorted returns the content in key order.
func Sorted(m map[string]Entry) []Entry {
	es := make([]Entry, 0, len(m))
	for _, e := range m {
		es = append(es, e)
	}
	sort.Slice(es, func(a, b int) bool { return es[a].Key < es[b].Key })
	return es
}

func Total(m map[string]Entry) uint64 {
	var t uint64
	for _, e := range m {
		t += e.Weight
	}
	return t
}

// Owner returns the entry owning block b (1-based) or false.
func Owner(sorted []Entry, b uint64) (Entry, bool) {
	if b == 0 {
		return Entry{}, false
	}
	var cum uint64
	for _, e := range sorted {
		if b <= cum+e.Weight {
			return e, true
		}
		cum += e.Weight
	}
	return Entry{}, false
}

// Root computes the root hash of the canonical trie for the content.
func Root(m map[string]Entry) []byte {
	if len(m) == 0 {
		return Empty
	}
	es := Sorted(m)
	its := make([]item, len(es))
	for i, e := range es {
		its[i] = item{nibbles(e.Key), e}
	}
	hh, _ := build(its)
	return hh
}

// Shape describes the canonical shape (for distinct-state counting).
func Shape(m map[string]Entry) string {
	if len(m) == 0 {
		return "-"
	}
	es := Sorted(m)
	its := make([]item, len(es))
	for i, e := range es {
		its[i] = item{nibbles(e.Key), e}
	}
	return shape(its)
}

func lcp(its []item) int {
	n := len(its[0].rest)
	for _, it := range its[1:] {
		i := 0
		for i < n && i < len(it.rest) && its[0].rest[i] == it.rest[i] {
			i++
		}
		n = i
	}
	return n
}

func build(its []item) (hash []byte, weight uint64) {
	if len(its) == 1 {
		it := its[0]
		vh := h(be(it.e.Weight), it.e.Value)
		if len(it.rest) == 0 {
			return vh, it.e.Weight
		}
		return h(it.rest, vh), it.e.Weight
	}
	if p := lcp(its); p > 0 {
		sub := make([]item, len(its))
		for i, it := range its {
			sub[i] = item{it.rest[p:], it.e}
		}
		bh, w := branch(sub)
		return h(its[0].rest[:p], bh), w
	}
	return branch(its)
}

func branch(its []item) ([]byte, uint64) {
	var groups [16][]item
	for _, it := range its {
		groups[it.rest[0]] = append(groups[it.rest[0]], item{it.rest[1:], it.e})
	}
	var total uint64
	body := make([]byte, 0, 16*32)
	for i := 0; i < 16; i++ {
		if len(groups[i]) == 0 {
			body = append(body, Empty...)
			continue
		}
		ch, w := build(groups[i])
		total += w
		body = append(body, ch...)
	}
	return h(be(total), body), total
}

func shape(its []item) string {
	if len(its) == 1 {
		return "s" + string(rune('0'+len(its[0].rest)/10)) + string(rune('0'+len(its[0].rest)%10))
	}
	if p := lcp(its); p > 0 {
		sub := make([]item, len(its))
		for i, it := range its {
			sub[i] = item{it.rest[p:], it.e}
		}
		return "e" + string(rune('0'+p/10)) + string(rune('0'+p%10)) + "(" + bshape(sub) + ")"
	}
	return bshape(its)
}

func bshape(its []item) string {
	var groups [16][]item
	for _, it := range its {
		groups[it.rest[0]] = append(groups[it.rest[0]], item{it.rest[1:], it.e})
	}
	s := "["
	for i := 0; i < 16; i++ {
		if len(groups[i]) > 0 {
			s += string("0123456789abcdef"[i]) + shape(groups[i])
		}
	}
	return s + "]"
}

// Describe maps every node hash of the canonical trie to a description (diagnostics).
func Describe(m map[string]Entry) map[string]string {
	out := map[string]string{}
	if len(m) == 0 {
		return out
	}
	es := Sorted(m)
	its := make([]item, len(es))
	for i, e := range es {
		its[i] = item{nibbles(e.Key), e}
	}
	describe(its, 0, out)
	return out
}

func describe(its []item, depth int, out map[string]string) ([]byte, uint64) {
	if len(its) == 1 {
		it := its[0]
		vh := h(be(it.e.Weight), it.e.Value)
		out[string(vh)] = "value"
		cnt(out, vh)
		if len(it.rest) == 0 {
			return vh, it.e.Weight
		}
		sh := h(it.rest, vh)
		out[string(sh)] = "short-to-value@" + itoa(depth)
		cnt(out, sh)
		return sh, it.e.Weight
	}
	if p := lcp(its); p > 0 {
		sub := make([]item, len(its))
		for i, it := range its {
			sub[i] = item{it.rest[p:], it.e}
		}
		bh, w := dbranch(sub, depth+p, out)
		sh := h(its[0].rest[:p], bh)
		out[string(sh)] = "short-to-branch@" + itoa(depth)
		cnt(out, sh)
		return sh, w
	}
	return dbranch(its, depth, out)
}

func dbranch(its []item, depth int, out map[string]string) ([]byte, uint64) {
	var groups [16][]item
	for _, it := range its {
		groups[it.rest[0]] = append(groups[it.rest[0]], item{it.rest[1:], it.e})
	}
	var total uint64
	body := make([]byte, 0, 16*32)
	for i := 0; i < 16; i++ {
		if len(groups[i]) == 0 {
			body = append(body, Empty...)
			continue
		}
		ch, w := describe(groups[i], depth+1, out)
		total += w
		body = append(body, ch...)
	}
	bh := h(be(total), body)
	out[string(bh)] = "branch@" + itoa(depth)
	cnt(out, bh)
	return bh, total
}

func itoa(i int) string {
	s := ""
	if i == 0 {
		return "0"
	}
	for i > 0 {
		s = string(rune('0'+i%10)) + s
		i /= 10
	}
	return s
}

// cnt counts references: out["#"+hash] holds a string of '+' characters, one per reference.
func cnt(out map[string]string, hash []byte) { out["#"+string(hash)] += "+" }

// Counts returns, for every node hash of the canonical trie, how many places reference it.
func Counts(m map[string]Entry) map[string]int {
	c := map[string]int{}
	for k, v := range Describe(m) {
		if len(k) > 0 && k[0] == '#' && len(k) == 33 {
			c[k[1:]] = len(v)
		}
	}
	return c
}
