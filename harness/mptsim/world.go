// Package mptsim simulates histories over the state Merkle-Patricia trie
// (real code from core/util) on memory, layered and persistent (simulated
// RocksDB) node stores, and checks them against reference models.
package mptsim

import (
	"bytes"
	"context"
	"encoding/json"
	"fmt"
	"sort"
	"strings"

	"github.com/0chain/common/core/logging"
	"github.com/0chain/common/core/statecache"
	"github.com/0chain/common/core/util"
	"github.com/linxGnu/grocksdb"
	"go.uber.org/zap"

	"verif/harness/sim"
)

func init() { logging.Logger = zap.NewNop() }

// Op is one step of a script.
type Op struct {
	K string `json:"k"`
	T int    `json:"t,omitempty"`
	P string `json:"p,omitempty"`
	V []byte `json:"v,omitempty"`
	N int64  `json:"n,omitempty"`
	S []int  `json:"s,omitempty"`
}

func (o Op) String() string {
	b, _ := json.Marshal(o)
	return string(b)
}

// Fault is one entry of an I/O fault plan.
type Fault struct {
	Kind string `json:"kind"` // "dbget" | "dbput" | "dbdel" (faulty NodeDB wrapper), "diskrd" | "diskwr" (simulated RocksDB)
	N    int    `json:"n"`    // ordinal of the failing operation (1-based)
}

// TreeScript describes one run of the tree world.
type TreeScript struct {
	Prop          string  `json:"prop"`
	CountJudge    bool    `json:"count_judge,omitempty"`    // C16: tasks use Insert/Delete/lookups/GetChangeCount only and the counts are judged
	Reopen        bool    `json:"reopen,omitempty"`         // C16 judged saves: the tasks work on a trie object opened on the prepared state; saves go to copies of that state, some with deletes
	LossyWrites   bool    `json:"lossy_writes,omitempty"`   // C16 runs on a store that lost nodes: the tasks also insert and delete; values are not judged then
	SaveJudge     bool    `json:"save_judge,omitempty"`     // C16: tasks use Insert/Delete/lookups/saves only; every save goes to a store of its own and is judged
	ScribblePaths bool    `json:"scribble_paths,omitempty"` // with Scribble: also the path slice passed to Insert is overwritten after the call
	Scribble      bool    `json:"scribble,omitempty"`       // the harness edits every value a lookup returned, after judging it
	Store         string  `json:"store"`                    // mem | lvlmem | lvlp | p | lvlpp
	Cache         string  `json:"cache"`                    // own | shared
	Observe       string  `json:"observe,omitempty"`        // "" = harness reads through the trie under test; "fresh" = through throw-away trie objects; "clone" = through util.CloneMPT
	IterAll       bool    `json:"iterall,omitempty"`        // content reads alternate between Iterate(values), Iterate(all node types) and IterateFrom(root, all node types)
	Ver           int64   `json:"ver"`
	Faults        []Fault `json:"faults,omitempty"`
	Ops           []Op    `json:"ops"`
	// C16: tasks and schedule
	Tasks     [][]Op `json:"tasks,omitempty"`
	Schedule  []int  `json:"schedule,omitempty"`
	Strategy  string `json:"strategy,omitempty"`
	SchedSeed uint64 `json:"sched_seed,omitempty"`
}

func (s *TreeScript) Len() int {
	n := len(s.Ops) + len(s.Faults)
	for _, t := range s.Tasks {
		n += len(t)
	}
	return n + len(s.Schedule)
}
func (s *TreeScript) Without(drop []int) sim.Script {
	d := map[int]bool{}
	for _, i := range drop {
		d[i] = true
	}
	c := *s
	c.Ops = nil
	c.Faults = nil
	for i, o := range s.Ops {
		if !d[i] {
			c.Ops = append(c.Ops, o)
		}
	}
	for i, f := range s.Faults {
		if !d[len(s.Ops)+i] {
			c.Faults = append(c.Faults, f)
		}
	}
	idx := len(s.Ops) + len(s.Faults)
	c.Tasks, c.Schedule = nil, nil
	for _, t := range s.Tasks {
		var nt []Op
		for _, o := range t {
			if !d[idx] {
				nt = append(nt, o)
			}
			idx++
		}
		c.Tasks = append(c.Tasks, nt)
	}
	for _, x := range s.Schedule {
		if !d[idx] {
			c.Schedule = append(c.Schedule, x)
		}
		idx++
	}
	return &c
}

func (s *TreeScript) Simpler() []sim.Script {
	var out []sim.Script
	for i := 1; i < len(s.Schedule) && len(out) < 60; i++ {
		if s.Schedule[i] != s.Schedule[i-1] {
			c := *s
			c.Schedule = append([]int{}, s.Schedule...)
			c.Schedule[i] = c.Schedule[i-1]
			out = append(out, &c)
		}
	}
	mod := func(f func(c *TreeScript)) {
		c := *s
		c.Ops = append([]Op{}, s.Ops...)
		f(&c)
		out = append(out, &c)
	}
	if s.Scribble {
		mod(func(c *TreeScript) { c.Scribble = false })
	}
	if s.Store != "mem" {
		mod(func(c *TreeScript) { c.Store = "mem" })
	}
	if s.Cache != "own" {
		mod(func(c *TreeScript) { c.Cache = "own" })
	}
	if s.Ver != 1 {
		mod(func(c *TreeScript) { c.Ver = 1 })
	}
	for i, o := range s.Ops {
		i, o := i, o
		if len(o.V) > 1 {
			mod(func(c *TreeScript) { c.Ops[i].V = o.V[:1] })
			if !(len(o.V) == 2 && o.V[0] == 'v') {
				mod(func(c *TreeScript) { c.Ops[i].V = []byte{'v', byte('a' + i%26)} })
			}
		}
		if len(o.P) >= 2 {
			// shorten this path everywhere it is used
			np := o.P[:len(o.P)-2]
			mod(func(c *TreeScript) {
				for j := range c.Ops {
					if c.Ops[j].P == o.P {
						c.Ops[j].P = np
					}
				}
			})
			// replace characters by '0' everywhere
			for _, ch := range []byte("0") {
				if strings.IndexByte(o.P, ch) >= 0 && strings.Count(o.P, string(ch)) == len(o.P) {
					continue
				}
				for pos := 0; pos < len(o.P); pos++ {
					if o.P[pos] == ch {
						continue
					}
					np2 := o.P[:pos] + string(ch) + o.P[pos+1:]
					mod(func(c *TreeScript) {
						for j := range c.Ops {
							if c.Ops[j].P == o.P {
								c.Ops[j].P = np2
							}
						}
					})
				}
			}
		}
		if o.N > 1 {
			mod(func(c *TreeScript) { c.Ops[i].N = o.N - 1 })
		}
		if len(o.S) > 1 {
			for k := range o.S {
				k := k
				mod(func(c *TreeScript) {
					c.Ops[i].S = append(append([]int{}, o.S[:k]...), o.S[k+1:]...)
				})
			}
		}
	}
	return out
}

func DecodeTree(b []byte) (sim.Script, error) {
	s := &TreeScript{}
	if err := json.Unmarshal(b, s); err != nil {
		return nil, err
	}
	return s, nil
}

// ---------------------------------------------------------------- world

type inst struct {
	id       int
	mpt      *util.MerklePatriciaTrie
	db       util.NodeDB
	mem      *util.MemoryNodeDB
	parent   *inst
	model    map[string]string
	ver      int64
	open     bool
	degraded bool // an injected I/O error hit an operation of this trie (C01 fault profile)
	// C03: what the parent looked like when the child was opened
	parentRootAtOpen []byte
	tc               *statecache.TransactionCache
	stale            bool // parent changed since open
	multiVer         bool
}

type world struct {
	s                             *TreeScript
	prop                          string
	tries                         []*inst
	disk                          *grocksdb.Disk
	pndb                          *util.PNodeDB
	path                          string
	fdb                           *faultyDB
	bc                            *statecache.BlockCache
	stats                         sim.Stats
	log                           *sim.Log
	v                             *sim.Violation
	step                          int
	states                        map[string]bool
	roots                         map[string]string // C02 injectivity: root -> content digest
	mark                          int
	iterN                         int
	retryMerge                    bool
	savedFailRead, savedFailWrite map[int]bool
}

var worldSeq int

func newDisk(path string) *grocksdb.Disk {
	d := grocksdb.NewDisk()
	grocksdb.SimSetDisk(path, d)
	return d
}

func val(b []byte) *util.SecureSerializableValue { return &util.SecureSerializableValue{Buffer: b} }

func (w *world) fail(oracle, class, f string, a ...interface{}) {
	if w.v == nil {
		d := fmt.Sprintf(f, a...)
		if len(d) > 3000 {
			d = d[:1500] + fmt.Sprintf(" ...[%d bytes]... ", len(d)-3000) + d[len(d)-1500:]
		}
		w.v = &sim.Violation{Property: w.prop, Oracle: oracle, Class: class, Detail: d, Step: w.step}
	}
}

func (w *world) newCache() *statecache.TransactionCache {
	if w.s.Cache == "shared" {
		if w.bc == nil {
			w.bc = statecache.NewBlockCache(statecache.NewStateCache(), statecache.Block{Round: w.s.Ver, Hash: "blk", PrevHash: "prev"})
		}
		return statecache.NewTransactionCache(w.bc)
	}
	return statecache.NewEmpty()
}

func newWorld(s *TreeScript) *world {
	w := &world{s: s, prop: s.Prop, stats: sim.Stats{}, log: &sim.Log{}, states: map[string]bool{}, roots: map[string]string{}}
	worldSeq++
	w.path = fmt.Sprintf("sim://tree/%d", worldSeq)
	root := &inst{id: 0, ver: s.Ver, model: map[string]string{}, open: true}
	needDisk := s.Store == "lvlp" || s.Store == "p" || s.Store == "lvlpp"
	if needDisk {
		w.disk = grocksdb.NewDisk()
		grocksdb.SimSetDisk(w.path, w.disk)
		p, err := util.NewPNodeDB(w.path, "")
		if err != nil {
			panic(err)
		}
		w.pndb = p
	}
	switch s.Store {
	case "mem":
		root.mem = util.NewMemoryNodeDB()
		root.db = root.mem
	case "lvlmem":
		root.mem = util.NewMemoryNodeDB()
		root.db = util.NewLevelNodeDB(root.mem, util.NewMemoryNodeDB(), false)
	case "lvlp":
		root.mem = util.NewMemoryNodeDB()
		root.db = util.NewLevelNodeDB(root.mem, w.pndb, false)
	case "p":
		root.db = w.pndb
	case "lvlpp": // layered store whose current level is the persistent store itself (what a rebase after a save produces)
		root.db = util.NewLevelNodeDB(w.pndb, w.pndb, false)
	default:
		panic("bad store " + s.Store)
	}
	for _, f := range s.Faults {
		switch f.Kind {
		case "dbget", "dbput", "dbdel":
			if w.fdb == nil {
				w.fdb = &faultyDB{NodeDB: root.db, w: w, fail: map[string]map[int]bool{}}
				root.db = w.fdb
			}
			if w.fdb.fail[f.Kind] == nil {
				w.fdb.fail[f.Kind] = map[int]bool{}
			}
			w.fdb.fail[f.Kind][f.N] = true
		case "diskrd":
			if w.disk != nil {
				if w.disk.FailRead == nil {
					w.disk.FailRead = map[int]bool{}
				}
				w.disk.FailRead[f.N] = true
			}
		case "diskwr":
			if w.disk != nil {
				if w.disk.FailWrite == nil {
					w.disk.FailWrite = map[int]bool{}
				}
				w.disk.FailWrite[f.N] = true
			}
		}
	}
	root.tc = w.newCache()
	root.mpt = util.NewMerklePatriciaTrie(root.db, util.Sequence(s.Ver), nil, root.tc)
	w.tries = []*inst{root}
	return w
}

func (w *world) close() {
	if w.disk != nil {
		grocksdb.SimDropDisk(w.path)
	}
}

// faultyDB wraps a NodeDB and fails chosen operations.
type faultyDB struct {
	util.NodeDB
	w        *world
	n        map[string]int
	disarmed bool
	fired    int
	muts     int    // successful PutNode / DeleteNode calls
	lastKind string // kind of the last injected failure
	fail     map[string]map[int]bool
}

var errInjected = fmt.Errorf("injected node-db error")

func (f *faultyDB) hit(kind string) bool {
	if f.n == nil {
		f.n = map[string]int{}
	}
	f.n[kind]++
	if f.fail[kind][f.n[kind]] && !f.disarmed {
		f.w.stats.Inc("fault." + kind)
		f.fired++
		f.lastKind = kind
		return true
	}
	return false
}
func (f *faultyDB) GetNode(k util.Key) (util.Node, error) {
	if f.hit("dbget") {
		return nil, errInjected
	}
	return f.NodeDB.GetNode(k)
}
func (f *faultyDB) PutNode(k util.Key, n util.Node) error {
	if f.hit("dbput") {
		return errInjected
	}
	f.muts++
	return f.NodeDB.PutNode(k, n)
}
func (f *faultyDB) DeleteNode(k util.Key) error {
	if f.hit("dbdel") {
		return errInjected
	}
	f.muts++
	return f.NodeDB.DeleteNode(k)
}

// faultMark / faultHit bracket one call into the code under test: did an
// injected I/O error fire inside it?
func (w *world) faultTotal() int {
	n := 0
	if w.fdb != nil {
		n += w.fdb.fired
	}
	if w.disk != nil {
		n += w.disk.St.WriteErrs + w.disk.St.ReadErrs
	}
	return n
}
func (w *world) faultMark() { w.mark = w.faultTotal() }

// armFaults switches the I/O fault plan off and on.  Faults fire only inside
// operations whose sequence of store calls is a function of the script
// (insert/delete/lookup/iterate); a merge replays the child's change set in the
// iteration order of a Go map, so the n-th store call inside it is not
// determined by the seed and a fault there could not be replayed.
func (w *world) armFaults(on bool) {
	if w.fdb != nil {
		w.fdb.disarmed = !on
	}
	if w.disk != nil {
		if on {
			if w.savedFailRead != nil || w.savedFailWrite != nil {
				w.disk.FailRead, w.disk.FailWrite = w.savedFailRead, w.savedFailWrite
				w.savedFailRead, w.savedFailWrite = nil, nil
			}
		} else if w.savedFailRead == nil && w.savedFailWrite == nil {
			w.savedFailRead, w.savedFailWrite = w.disk.FailRead, w.disk.FailWrite
			w.disk.FailRead, w.disk.FailWrite = nil, nil
		}
	}
}
func (w *world) faultHit() bool { return w.faultTotal() > w.mark }

func (w *world) get(i int) *inst {
	if i < 0 || i >= len(w.tries) || !w.tries[i].open {
		return nil
	}
	return w.tries[i]
}

// guard runs f, turning a panic into a violation.
func (w *world) guard(what string, f func()) (panicked bool) {
	defer func() {
		if r := recover(); r != nil {
			panicked = true
			w.fail("panic", "panic:"+firstLine(fmt.Sprint(r)), "%s panicked: %v", what, r)
		}
	}()
	f()
	return false
}

func firstLine(s string) string {
	if i := strings.IndexByte(s, '\n'); i >= 0 {
		s = s[:i]
	}
	if len(s) > 60 {
		s = s[:60]
	}
	return s
}

// ---------------------------------------------------------------- observations

type kv struct{ p, v string }

// content reads the full content through Iterate.
func content(m *util.MerklePatriciaTrie) (map[string]string, []kv, error) { return contentVia(m, 0) }

const allNodeTypes = util.NodeTypeValueNode | util.NodeTypeLeafNode | util.NodeTypeFullNode | util.NodeTypeExtensionNode

// contentVia: mode 0 = Iterate over value nodes only; 1 = Iterate over all node types (value nodes picked out);
// 2 = IterateFrom(root) over all node types (Iterate when the trie is empty).
func contentVia(m *util.MerklePatriciaTrie, mode int) (map[string]string, []kv, error) {
	out := map[string]string{}
	var list []kv
	h := func(ctx context.Context, path util.Path, key util.Key, node util.Node) error {
		vn, ok := node.(*util.ValueNode)
		if !ok || vn == nil {
			return nil
		}
		p := string(append([]byte{}, path...))
		v := string(vn.GetValueBytes())
		list = append(list, kv{p, v})
		out[p] = v
		return nil
	}
	var err error
	switch root := m.GetRoot(); {
	case mode == 2 && len(root) > 0:
		err = m.IterateFrom(context.Background(), root, h, allNodeTypes)
	case mode >= 1:
		err = m.Iterate(context.Background(), h, allNodeTypes)
	default:
		err = m.Iterate(context.Background(), h, util.NodeTypeValueNode)
	}
	return out, list, err
}

func mapDigest(m map[string]string) string {
	ks := sim.SortedKeys(m)
	var b strings.Builder
	for _, k := range ks {
		fmt.Fprintf(&b, "%s=%x;", k, m[k])
	}
	return sim.Digest(b.String())
}

func diffMaps(want, got map[string]string) string {
	var d []string
	for k, v := range want {
		g, ok := got[k]
		if !ok {
			d = append(d, fmt.Sprintf("missing %q", k))
		} else if g != v {
			d = append(d, fmt.Sprintf("%q: want %q got %q", k, v, g))
		}
	}
	for k, g := range got {
		if _, ok := want[k]; !ok {
			d = append(d, fmt.Sprintf("extra %q=%q", k, g))
		}
	}
	sort.Strings(d)
	if len(d) > 4 {
		d = append(d[:4], fmt.Sprintf("... %d more", len(d)-4))
	}
	return strings.Join(d, "; ")
}

// absentProbes derives paths near the model's keys that are not stored.
func absentProbes(model map[string]string, extra ...string) []string {
	seen := map[string]bool{}
	var out []string
	add := func(p string) {
		if _, ok := model[p]; ok || seen[p] || len(p)%2 != 0 {
			return
		}
		seen[p] = true
		out = append(out, p)
	}
	add("")
	for _, e := range extra {
		add(e)
	}
	for _, k := range sim.SortedKeys(model) {
		for l := 0; l < len(k); l += 2 {
			if len(k) > 40 && l > 12 && l < len(k)-12 && l%64 != 0 {
				continue // long keys: the first and last few prefixes and every 32nd byte in between
			}
			add(k[:l])
		}
		add(k + "00")
		add(k + "af")
		if len(k) >= 2 {
			b := []byte(k)
			if b[len(b)-1] == '0' {
				b[len(b)-1] = '1'
			} else {
				b[len(b)-1] = '0'
			}
			add(string(b))
			b = []byte(k)
			if b[0] == 'f' {
				b[0] = 'e'
			} else {
				b[0] = 'f'
			}
			add(string(b))
		}
		if len(out) > 48 {
			break
		}
	}
	return out
}

func errClass(err error) string {
	switch err {
	case nil:
		return "ok"
	case util.ErrValueNotPresent:
		return "not-present"
	case util.ErrNodeNotFound:
		return "node-not-found"
	}
	return "error"
}

// pathRel classifies how path p relates to the model's keys (used for
// violation classes; computed from the reference model only).
func pathRel(model map[string]string, p string) string {
	if _, ok := model[p]; ok {
		return "present"
	}
	isPrefix, hasPrefix := false, false
	for k := range model {
		if len(k) > len(p) && strings.HasPrefix(k, p) {
			isPrefix = true
		}
		if len(k) < len(p) && strings.HasPrefix(p, k) {
			hasPrefix = true
		}
	}
	switch {
	case isPrefix && hasPrefix:
		return "absent-interior-below-key"
	case isPrefix:
		return "absent-interior"
	case hasPrefix:
		return "absent-below-key"
	}
	return "absent-disjoint"
}

func keysEqual(a, b []byte) bool { return bytes.Equal(a, b) }
