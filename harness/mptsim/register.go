package mptsim

import "verif/harness/sim"

func init() {
	for _, p := range []string{"C01", "C02", "C03", "C14", "C17"} {
		p := p
		sim.Register(&sim.Engine{
			Prop:   p,
			Gen:    func(r *sim.Rand, tier string) sim.Script { return GenTree(p, r, tier) },
			Exec:   ExecTree,
			Decode: DecodeTree,
		})
	}
	for _, p := range []string{"C04", "C05"} {
		p := p
		sim.Register(&sim.Engine{
			Prop:   p,
			Gen:    func(r *sim.Rand, tier string) sim.Script { return GenRounds(p, r, tier) },
			Exec:   ExecRounds,
			Decode: DecodeRounds,
		})
	}
	sim.Register(&sim.Engine{Prop: "C16", Gen: GenSched, Exec: ExecSched, Decode: DecodeTree, Sched: true, Concretize: concretize})
}
