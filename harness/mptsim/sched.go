//go:build simsched

package mptsim

import (
	"bytes"
	"context"
	"fmt"
	"sort"
	"strings"
	"time"

	"github.com/0chain/common/core/statecache"
	"github.com/0chain/common/core/util"
	"github.com/anishathalye/porcupine"

	"verif/harness/refmpt"
	"verif/harness/sched"
	"verif/harness/sim"
	"verif/simrt"
)

var raceLog = sched.OpenRaceLog()

// history input / output for the linearizability check
type hin struct {
	op   string // get | ins | del | iter
	k, v string
}
type hout struct {
	v     string
	found bool
	all   string // iter: rendered content
	err   bool   // the operation failed with an error other than "not present"
}

func renderMap(m map[string]string) string {
	ks := sim.SortedKeys(m)
	var b strings.Builder
	for _, k := range ks {
		fmt.Fprintf(&b, "%s=%s;", k, m[k])
	}
	return b.String()
}

func parseMap(s string) map[string]string {
	m := map[string]string{}
	for _, kv := range strings.Split(s, ";") {
		if i := strings.IndexByte(kv, '='); i >= 0 {
			m[kv[:i]] = kv[i+1:]
		}
	}
	return m
}

// the sequential specification: a map
var mapModel = porcupine.Model{
	Init: func() interface{} { return "" },
	Step: func(state, input, output interface{}) (bool, interface{}) {
		st := state.(string)
		i, o := input.(hin), output.(hout)
		m := parseMap(st)
		switch i.op {
		case "get":
			v, ok := m[i.k]
			return !o.err && ok == o.found && (!ok || v == o.v), st
		case "ins":
			if o.err {
				return false, st
			}
			m[i.k] = i.v
			return true, renderMap(m)
		case "del":
			_, had := m[i.k]
			if o.err || had != o.found {
				return false, st
			}
			delete(m, i.k)
			return true, renderMap(m)
		case "iter":
			return !o.err && o.all == st, st
		case "setall": // MergeDB of a synced state: the content becomes the donor's, atomically
			if o.err {
				return false, st
			}
			return true, i.v
		case "mput": // a child trie merged back: its one insert takes effect atomically at the merge, or the merge is rejected
			if !o.found {
				return true, st
			}
			m[i.k] = i.v
			return true, renderMap(m)
		}
		return false, st
	},
	Equal: func(a, b interface{}) bool { return a.(string) == b.(string) },
	DescribeOperation: func(input, output interface{}) string {
		return fmt.Sprintf("%+v -> %+v", input, output)
	},
}

// ExecSched: sequential setup through the tree world, then tasks on trie 0 under the seeded scheduler.
func ExecSched(sc sim.Script) *sim.Outcome {
	s := sc.(*TreeScript)
	w := newWorld(s)
	defer w.close()
	for i, op := range s.Ops {
		w.step = i
		w.apply(op)
		if w.v != nil {
			return finishSched(w, nil)
		}
	}
	t := w.tries[0]
	lossy := w.stats["fault.node-lost"] > 0
	initial := map[string]string{}
	for k, v := range t.model {
		initial[k] = v
	}
	// judged saves, second variant: the trie object under test is opened on the prepared state (a fresh change
	// collector: what the tasks replace are nodes that existed before, so the delete list fills), every save goes
	// to a private copy of that state, with or without deletes
	var baseNodes []nodeRef
	if s.SaveJudge && s.Reopen && !lossy {
		baseNodes = reach(t.db, t.mpt.GetRoot())
		t.tc = w.newCache()
		t.mpt = util.NewMerklePatriciaTrie(t.db, util.Sequence(t.ver), t.mpt.GetRoot(), t.tc)
	}
	var saveDB util.NodeDB
	if w.pndb != nil {
		saveDB = w.pndb
	} else {
		w.diskForSave()
		saveDB = w.pndb
	}
	// donors for MergeDB: a separately built trie holding the initial content plus one more entry
	type donor struct {
		m    *util.MerklePatriciaTrie
		cont string
	}
	donors := map[[2]int]donor{}
	for ti := range s.Tasks {
		for oi, op := range s.Tasks[ti] {
			if op.K != "mergedb" {
				continue
			}
			dc := map[string]string{}
			for k, v := range initial {
				dc[k] = v
			}
			dc[op.P] = string(op.V)
			// the donor store iterates in key order: MemoryNodeDB.Iterate follows Go map order, which would make the
			// order of MergeDB's writes (and with it the interleaving) differ from one execution to the next
			dm := util.NewMerklePatriciaTrie(&orderedDB{MemoryNodeDB: util.NewMemoryNodeDB()}, util.Sequence(t.ver), nil, statecache.NewEmpty())
			for _, k := range sim.SortedKeys(dc) {
				if _, err := dm.Insert(util.Path(k), val([]byte(dc[k]))); err != nil {
					panic(err)
				}
			}
			donors[[2]int{ti, oi}] = donor{dm, renderMap(dc)}
		}
	}
	nt := len(s.Tasks)
	// what every successful write made the root, and what every save wrote where (judged in SaveJudge runs)
	type rootRec struct {
		call, ret int64
		root      util.Key
	}
	type saveRec struct {
		call, ret int64
		target    *util.MemoryNodeDB
		kind      string
	}
	rootsOf := make([][]rootRec, nt)
	savesOf := make([][]saveRec, nt)
	initialRoot := append(util.Key{}, t.mpt.GetRoot()...)
	hist := make([][]porcupine.Operation, nt)
	counts := make([][]int, nt)             // per task: results of GetChangeCount
	missingSeen := make([]string, nt)       // per task: a complaint about nodes reported absent on a store that lost none
	opCount := make([]map[string]int64, nt) // per task: which operations ran (merged into the stats after the run)
	fns := make([]func(), nt)
	est := 0
	for ti := range s.Tasks {
		ti := ti
		est += 60 * len(s.Tasks[ti])
		opCount[ti] = map[string]int64{}
		fns[ti] = func() {
			for oi, op := range s.Tasks[ti] {
				opCount[ti][op.K]++
				call := simrt.Stamp()
				var in hin
				var out hout
				record := true
				switch op.K {
				case "get":
					in = hin{op: "get", k: op.P}
					v, err := t.mpt.GetNodeValueRaw(util.Path(op.P))
					switch err {
					case nil:
						out = hout{v: string(v), found: true}
					case util.ErrValueNotPresent:
						out = hout{}
					default:
						out = hout{err: true}
					}
				case "ins":
					in = hin{op: "ins", k: op.P, v: string(op.V)}
					nr, err := t.mpt.Insert(util.Path(op.P), val(op.V))
					out = hout{err: err != nil}
					if err == nil {
						rootsOf[ti] = append(rootsOf[ti], rootRec{call, simrt.Stamp(), append(util.Key{}, nr...)})
					}
				case "del":
					in = hin{op: "del", k: op.P}
					nr, err := t.mpt.Delete(util.Path(op.P))
					switch err {
					case nil:
						out = hout{found: true}
						rootsOf[ti] = append(rootsOf[ti], rootRec{call, simrt.Stamp(), append(util.Key{}, nr...)})
					case util.ErrValueNotPresent:
						out = hout{}
					default:
						out = hout{err: true}
					}
				case "iter":
					in = hin{op: "iter"}
					c, _, err := content(t.mpt)
					out = hout{all: renderMap(c), err: err != nil}
				case "mchild": // open a transaction trie on the shared trie, insert, merge it back
					in = hin{op: "mput", k: op.P, v: string(op.V)}
					cdb := util.NewLevelNodeDB(util.NewMemoryNodeDB(), t.mpt.GetNodeDB(), false)
					c := util.NewMerklePatriciaTrie(cdb, util.Sequence(t.ver), t.mpt.GetRoot(), statecache.NewEmpty())
					_, ierr := c.Insert(util.Path(op.P), val(op.V))
					var merr error
					if ierr == nil {
						merr = t.mpt.MergeMPTChanges(c)
					}
					out = hout{found: ierr == nil && merr == nil}
				case "mergedb":
					d := donors[[2]int{ti, oi}]
					in = hin{op: "setall", v: d.cont}
					err := t.mpt.MergeDB(d.m.GetNodeDB(), d.m.GetRoot(), nil)
					out = hout{err: err != nil}
				case "validate":
					record = false
					t.mpt.Validate()
					t.mpt.GetNodeDB()
					t.mpt.GetVersion()
				case "count":
					record = false
					counts[ti] = append(counts[ti], t.mpt.GetChangeCount())
				case "changes":
					record = false
					t.mpt.GetChanges()
					t.mpt.GetDeletes()
					t.mpt.GetChangeCount()
				case "missing":
					record = false
					for _, k := range t.mpt.GetMissingNodeKeys() {
						if len(k) > 0 && !lossy { // (the empty key is what walking an empty trie leaves behind)
							missingSeen[ti] = fmt.Sprintf("GetMissingNodeKeys contains %x although no node of this trie was ever absent", k)
						}
					}
				case "pp":
					// PrettyPrint walks the whole trie like Iterate: on a store that never lost a node its dump has no error lines
					record = false
					var buf bytes.Buffer
					t.mpt.PrettyPrint(&buf)
					if !lossy {
						for _, line := range strings.Split(buf.String(), "\n") {
							if strings.Contains(line, "err ") && !strings.Contains(line, "err  ") { // "err  ..." = the empty key: an empty trie has no root node
								missingSeen[ti] = fmt.Sprintf("PrettyPrint printed %q although no node of this trie was ever absent", line)
							}
						}
					}
				case "hasmissing":
					record = false
					t.mpt.HasMissingNodes(context.Background())
				case "save", "savecancel":
					// "savecancel": a save abandoned by its caller (context already cancelled). SaveChanges returns while
					// its writer goroutine - a scheduled task of its own in the instrumented copy (simrt.Go) - still
					// has to write the collected changes; the caller goes on changing the trie.
					record = false
					ctx := context.Background()
					if op.K == "savecancel" {
						c2, cancel := context.WithCancel(ctx)
						cancel()
						ctx = c2
					}
					if s.SaveJudge {
						target := util.NewMemoryNodeDB()
						for _, n := range baseNodes {
							target.PutNode(n.key, n.node.CloneNode())
						}
						var serr error
						if op.N == 2 {
							// disk error: the store refuses the batch (nothing is written); a save that reports
							// success is judged like any other
							serr = t.mpt.SaveChanges(ctx, &refusingDB{NodeDB: target}, false)
							opCount[ti]["save-into-a-store-that-refuses-the-write"]++
						} else {
							serr = t.mpt.SaveChanges(ctx, target, s.Reopen && op.N == 1)
						}
						if serr == nil || op.N != 2 {
							savesOf[ti] = append(savesOf[ti], saveRec{call, simrt.Stamp(), target, op.K})
						}
					} else {
						t.mpt.SaveChanges(ctx, saveDB, false)
					}
				case "root":
					record = false
					t.mpt.GetRoot()
				default:
					record = false
				}
				ret := simrt.Stamp()
				if record {
					hist[ti] = append(hist[ti], porcupine.Operation{ClientId: ti, Input: in, Call: call, Output: out, Return: ret})
				}
			}
		}
	}
	plan := sched.Plan{Strategy: s.Strategy, Seed: s.SchedSeed, Choices: s.Schedule}
	if plan.Strategy == "" {
		plan.Strategy = "replay"
	}
	res := sched.Run(plan, est, 400000, fns...)
	for _, m := range opCount {
		for k, n := range m {
			w.stats.Add("op.task-"+k, n)
		}
	}
	w.stats.Add("sim.steps", int64(res.Steps))
	w.stats.Add("sched.switches", int64(res.Switches))
	w.stats.Add("sched.decisions", int64(res.Decisions))
	w.stats.Inc("sched.strategy." + plan.Strategy)
	w.states[res.Digest] = true
	w.log.Printf("sched %s steps=%d", res.Digest, res.Steps)
	if res.Err != nil {
		w.fail("sched."+strings.Fields(res.Err.Error())[0], "scheduler", "%v", res.Err)
	}
	for ti, p := range res.Panics {
		if p != nil {
			w.fail("panic", "panic:"+firstLine(fmt.Sprint(p)), "task %d panicked: %v", ti, p)
		}
	}
	for ti, m := range missingSeen {
		if m != "" {
			w.fail("c16.atomic", "node-reported-absent", "task %d: %s", ti, m)
		}
	}
	for _, sig := range raceLog.New("github.com/0chain/common") {
		w.fail("race", "race:"+sig, "data race reported by the race detector: %s", sig)
	}
	if w.v != nil || sched.RaceEnabled {
		// the -race build decides only the race / panic / deadlock clauses
		return finishSched(w, res)
	}
	if s.CountJudge && !lossy {
		// GetChangeCount is atomic: it reports the number of collected changes of a state between two writes. The
		// set of such numbers is computed by executing every order of every combination of prefixes of the tasks'
		// writes sequentially on a fresh copy of the set-up (a superset of what real-time order allows).
		allowed := w.sequentialChangeCounts(s)
		for ti, cs := range counts {
			for _, c := range cs {
				if !allowed[c] && w.v == nil {
					var as []int
					for a := range allowed {
						as = append(as, a)
					}
					sort.Ints(as)
					w.fail("c16.atomic", "change-count-of-no-sequential-state", "task %d: GetChangeCount returned %d; sequential executions of the tasks' writes only ever show %v", ti, c, as)
				}
			}
		}
		w.stats.Inc("check.change-count")
	}
	if s.SaveJudge && !lossy {
		// What a save writes is the change set of a state the trie was in during the call: the nodes it put into
		// its (private, empty) target must make up the complete trie of a root that was current at some moment
		// between the save's call and its return - also when the caller had given up waiting (cancelled context)
		// and the writer finished later, after other writes.  A root produced by write i can have been current
		// during [call, ret] only if i was called before ret and no other write began after i returned and
		// returned before call.
		all := []rootRec{{0, 0, initialRoot}}
		for _, rs := range rootsOf {
			all = append(all, rs...)
		}
		for ti, svs := range savesOf {
			for _, sv := range svs {
				ok := false
				var tried []string
				for i, wi := range all {
					if wi.call > sv.ret {
						continue
					}
					dead := false
					for j, wj := range all {
						if j != i && wj.call > wi.ret && wj.ret < sv.call {
							dead = true
						}
					}
					if dead {
						continue
					}
					tried = append(tried, fmt.Sprintf("%x", wi.root))
					if len(wi.root) == 0 {
						ok = true
						break
					}
					if _, _, err := content(util.NewMerklePatriciaTrie(sv.target, util.Sequence(t.ver), wi.root, statecache.NewEmpty())); err == nil {
						ok = true
						break
					}
				}
				w.stats.Inc("check.saved-state-of-the-call")
				if !ok && w.v == nil {
					w.fail("c16.save", sv.kind+":saved-nodes-of-no-state-during-the-call", "task %d: %s called at %d, returned at %d: the %d nodes it wrote do not make up the trie of any root that was current during the call (tried %v)", ti, sv.kind, sv.call, sv.ret, sv.target.Size(context.Background()), tried)
				}
			}
		}
	}
	var all []porcupine.Operation
	nmut := 0
	for ti, h := range hist {
		for _, o := range h {
			w.log.Printf("t%d [%d,%d] %+v -> %+v", ti, o.Call, o.Return, o.Input, o.Output)
		}
	}
	for _, h := range hist {
		for _, o := range h {
			if in := o.Input.(hin); in.op == "ins" || in.op == "del" || in.op == "mput" || in.op == "setall" {
				nmut++
			}
		}
		all = append(all, h...)
	}
	w.stats.Add("mut", int64(nmut))
	if lossy && s.LossyWrites {
		w.stats.Inc("probe.writers-next-to-lookups-into-absent-nodes")
		return finishSched(w, res)
	}
	if lossy {
		// readers ran into absent nodes: values must still never be wrong; the history of reads
		// on a fixed content needs no linearizability search
		w.stats.Inc("probe.lookups-into-absent-nodes")
		for _, o := range all {
			in, out := o.Input.(hin), o.Output.(hout)
			if in.op == "get" && !out.err {
				if v, ok := initial[in.k]; ok != out.found || (ok && v != out.v) {
					w.fail("c16.value", "wrong-read-with-absent-nodes", "get %q returned (%q,%v), content has (%q,%v)", in.k, out.v, out.found, v, ok)
				}
			}
		}
		return finishSched(w, res)
	}
	// prepend the initial content as one write-all, append a final read-all
	final, _, ferr := content(t.mpt)
	if ferr != nil {
		w.fail("c16.final", "final-iterate-error", "final Iterate failed: %v", ferr)
		return finishSched(w, res)
	}
	model := mapModel
	model.Init = func() interface{} { return renderMap(initial) }
	last := int64(1) << 40
	all = append(all, porcupine.Operation{ClientId: nt, Input: hin{op: "iter"}, Call: last, Output: hout{all: renderMap(final)}, Return: last + 1})
	if len(all) > 40 {
		w.stats.Inc("skipped.history-too-long")
		return finishSched(w, res)
	}
	switch porcupine.CheckOperationsTimeout(model, all, 30*time.Second) {
	case porcupine.Illegal:
		var d []string
		sort.Slice(all, func(a, b int) bool { return all[a].Call < all[b].Call })
		for _, o := range all {
			d = append(d, fmt.Sprintf("c%d[%d,%d] %s", o.ClientId, o.Call, o.Return, mapModel.DescribeOperation(o.Input, o.Output)))
		}
		w.fail("c16.linearizable", "not-linearizable", "history is not linearizable w.r.t. the map model (initial %q): %s", renderMap(initial), strings.Join(d, " | "))
	case porcupine.Unknown:
		w.stats.Inc("inconclusive.porcupine-timeout")
	default:
		w.stats.Inc("check.linearizable")
	}
	if w.v == nil && !t.multiVer {
		m := map[string][]byte{}
		for k, v := range final {
			m[k] = []byte(v)
		}
		want := refmpt.Root(m, t.ver)
		if got := t.mpt.GetRoot(); !bytes.Equal(want, got) && !(len(want) == 0 && len(got) == 0) {
			w.fail("c16.final", "final-root", "final root %x differs from the root of a sequential execution with the same final content %x", got, want)
		}
	}
	return finishSched(w, res)
}

// sequentialChangeCounts: GetChangeCount after every sequential execution of any interleaving of prefixes of the
// tasks' Insert/Delete operations, each on a fresh copy of the set-up.
func (w *world) sequentialChangeCounts(s *TreeScript) map[int]bool {
	var writes [][]Op
	for _, t := range s.Tasks {
		var ws []Op
		for _, op := range t {
			if op.K == "ins" || op.K == "del" {
				ws = append(ws, op)
			}
		}
		writes = append(writes, ws)
	}
	allowed := map[int]bool{}
	pos := make([]int, len(writes))
	var path []Op
	var rec func()
	rec = func() {
		w2 := newWorld(s)
		for _, op := range s.Ops {
			w2.apply(op)
		}
		t2 := w2.tries[0]
		for _, op := range path {
			if op.K == "ins" {
				t2.mpt.Insert(util.Path(op.P), val(op.V))
			} else {
				t2.mpt.Delete(util.Path(op.P))
			}
		}
		allowed[t2.mpt.GetChangeCount()] = true
		w2.close()
		for ti := range writes {
			if pos[ti] < len(writes[ti]) {
				path = append(path, writes[ti][pos[ti]])
				pos[ti]++
				rec()
				pos[ti]--
				path = path[:len(path)-1]
			}
		}
	}
	rec()
	return allowed
}

// orderedDB is a memory node store whose Iterate visits the nodes in key order.
type orderedDB struct {
	*util.MemoryNodeDB
	keys map[string]bool
}

func (o *orderedDB) PutNode(key util.Key, node util.Node) error {
	if o.keys == nil {
		o.keys = map[string]bool{}
	}
	o.keys[string(key)] = true
	return o.MemoryNodeDB.PutNode(key, node)
}

func (o *orderedDB) MultiPutNode(keys []util.Key, nodes []util.Node) error {
	for i := range keys {
		if err := o.PutNode(keys[i], nodes[i]); err != nil {
			return err
		}
	}
	return nil
}

func (o *orderedDB) DeleteNode(key util.Key) error {
	delete(o.keys, string(key))
	return o.MemoryNodeDB.DeleteNode(key)
}

func (o *orderedDB) Iterate(ctx context.Context, handler util.NodeDBIteratorHandler) error {
	ks := make([]string, 0, len(o.keys))
	for k := range o.keys {
		ks = append(ks, k)
	}
	sort.Strings(ks)
	for _, k := range ks {
		n, err := o.MemoryNodeDB.GetNode(util.Key(k))
		if err != nil {
			continue
		}
		if err := handler(ctx, util.Key(k), n); err != nil {
			return err
		}
	}
	return nil
}

// signalDB tells the waiting task when SaveChanges' writer goroutine has delivered its batch.
// refusingDB fails every batch write with an I/O error and writes nothing.
type refusingDB struct{ util.NodeDB }

func (r *refusingDB) MultiPutNode(keys []util.Key, nodes []util.Node) error {
	return fmt.Errorf("injected I/O error: batch of %d nodes refused", len(keys))
}

func finishSched(w *world, res *sched.Result) *sim.Outcome {
	o := &sim.Outcome{V: w.v, Stats: w.stats, Digest: w.log.Digest()}
	for k := range w.states {
		o.States = append(o.States, k)
	}
	sort.Strings(o.States)
	if res != nil {
		o.Taken = res.Taken
		o.Nontrivial = res.Switches >= 1
	}
	return o
}

// diskForSave gives memory-store runs a persistent store to save into.
func (w *world) diskForSave() {
	if w.pndb != nil {
		return
	}
	w.disk = newDisk(w.path)
	p, err := util.NewPNodeDB(w.path, "")
	if err != nil {
		panic(err)
	}
	w.pndb = p
}

func concretize(sc sim.Script, o *sim.Outcome) sim.Script {
	s := sc.(*TreeScript)
	if s.Strategy == "replay" || len(o.Taken) == 0 {
		return sc
	}
	c := *s
	c.Strategy = "replay"
	c.Schedule = append([]int{}, o.Taken...)
	return &c
}
