//go:build !simsched

package mptsim

import "verif/harness/sim"

// ExecSched needs the instrumented build (tag simsched).
func ExecSched(sc sim.Script) *sim.Outcome {
	return &sim.Outcome{Stats: sim.Stats{"skipped.needs-instrumented-build": 1}}
}

func concretize(sc sim.Script, o *sim.Outcome) sim.Script { return sc }
