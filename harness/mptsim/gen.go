package mptsim

import (
	"fmt"
	"os"
	"strings"

	"verif/harness/sim"
)

// pathPool builds a per-run pool of even-length lowercase-hex paths with many
// structural coincidences (prefixes of one another, siblings, the empty path).
func pathPool(r *sim.Rand, profile string, n int) []string {
	alpha := "0123456789abcdef"
	if profile == "tiny" {
		alpha = "01af"
	}
	if profile == "dense" { // few symbols, one length: deep, densely branching tries
		alpha = []string{"01", "01", "0a", "012"}[r.Intn(4)]
	}
	rnd := func(l int) string {
		b := make([]byte, l)
		for i := range b {
			b[i] = alpha[r.Intn(len(alpha))]
		}
		return string(b)
	}
	fixedLen := []int{4, 8, 8, 16, 64, 64, 100, 256}[r.Intn(8)] // the property allows paths of any length
	if profile == "dense" {
		fixedLen = []int{4, 6, 6, 8}[r.Intn(4)]
	}
	var pool []string
	for len(pool) < n {
		var p string
		switch profile {
		case "dense":
			p = rnd(fixedLen)
		case "fixed":
			if len(pool) > 0 && r.Chance(2, 3) {
				// share a prefix of random length with an existing path
				q := pool[r.Intn(len(pool))]
				k := r.Intn(fixedLen)
				p = q[:k] + rnd(fixedLen-k)
			} else {
				p = rnd(fixedLen)
			}
		default: // tiny, mixed
			maxL := 8
			if profile == "mixed" {
				maxL = 12
			}
			if len(pool) == 0 || r.Chance(1, 5) {
				p = rnd(2 * r.Intn(maxL/2+1))
			} else {
				q := pool[r.Intn(len(pool))]
				switch r.Intn(5) {
				case 0: // proper prefix
					if len(q) >= 2 {
						p = q[:2*r.Intn(len(q)/2)]
					} else {
						p = rnd(2)
					}
				case 1: // extension
					p = q + rnd(2*(1+r.Intn(2)))
				case 2: // sibling in the last char
					if len(q) > 0 {
						p = q[:len(q)-1] + rnd(1)
					}
				case 3: // diverge at a random position
					if len(q) > 0 {
						k := r.Intn(len(q))
						p = q[:k] + rnd(len(q)-k)
					}
				default: // odd split point: share an odd-length prefix, then diverge (extension of odd length)
					if len(q) >= 2 {
						k := 1 + 2*r.Intn(len(q)/2)
						p = q[:k] + rnd(1) + rnd(2*r.Intn(2))
					} else {
						p = rnd(2)
					}
				}
			}
		}
		if len(p)%2 != 0 {
			p += rnd(1)
		}
		pool = append(pool, p)
	}
	if profile != "fixed" && profile != "dense" && r.Chance(1, 3) {
		pool[r.Intn(len(pool))] = ""
	}
	return pool
}

func genValue(r *sim.Rand, profile string, n int) []byte {
	switch profile {
	case "small":
		return []byte{"ABC"[r.Intn(3)]}
	case "sep":
		specials := []string{":", "::", "\x00", "\x02", "\x04", "\x08", ":\x02:", "a:b", "\x01"}
		v := fmt.Sprintf("v%d", n)
		return []byte(specials[r.Intn(len(specials))] + v + specials[r.Intn(len(specials))])
	case "bin":
		l := 1 + r.Intn(40)
		b := make([]byte, l)
		for i := range b {
			b[i] = byte(r.U64())
		}
		// keep writes unique
		return append(b, []byte(fmt.Sprintf("#%d", n))...)
	}
	v := fmt.Sprintf("v%d", n)
	if r.Chance(1, 8) {
		v += string(make([]byte, r.Intn(100)))
	}
	if r.Chance(1, 60) { // sizes around typical thresholds
		v += strings.Repeat("x", []int{200, 255, 256, 257, 1000, 4096, 70000}[r.Intn(7)])
	}
	return []byte(v)
}

type genCfg struct {
	prop             string
	nOps             int
	pool             []string
	valProfile       string
	children         bool
	setver           bool
	wIns, wDel, wGet int
	wIter, wEmpty    int
	wChild, wClose   int
	big              bool
	maxval           bool   // values within a few hundred bytes of the largest size Insert accepts
	maxvalAt         string // if set: only this path gets such values (keeps runs with many operations affordable)
}

// GenTree generates a script for the tree world for the given property.
func GenTree(prop string, r *sim.Rand, tier string) sim.Script {
	sc := genTree0(prop, r, tier)
	// options added later are drawn last, so that the scripts of earlier seeds keep their operations
	if s, ok := sc.(*TreeScript); ok {
		if s.Observe == "" && r.Chance(1, 4) {
			s.Observe = "clone"
		}
		s.IterAll = r.Chance(1, 3)
		s.ScribblePaths = r.Chance(1, 2)
		for i := range s.Ops {
			if s.Ops[i].K == "merge" && r.Chance(1, 3) {
				s.Ops[i].N = 1 // if this merge is rejected it is tried again at once
			}
		}
	}
	return sc
}

func genTree0(prop string, r *sim.Rand, tier string) sim.Script {
	s := &TreeScript{Prop: prop}
	s.Store = []string{"mem", "lvlmem", "lvlp", "p", "lvlpp"}[r.Intn(5)]
	s.Cache = []string{"own", "own", "shared"}[r.Intn(3)]
	if r.Chance(1, 2) {
		s.Observe = "fresh"
	}
	s.Scribble = r.Chance(1, 3)
	s.Ver = int64(1 + r.Intn(50))
	if r.Chance(1, 10) {
		s.Ver = int64(r.U64() >> 2)
	}
	if prop == "C03" && r.Chance(1, 6) {
		return genNested(s, r)
	}
	profile := []string{"tiny", "tiny", "fixed", "mixed", "dense"}[r.Intn(5)]
	long := tier == "thorough" && r.Chance(1, 40)
	nOps := 1 + r.Intn(40)
	nPool := 2 + r.Intn(10)
	if r.Chance(1, 4) {
		nOps = 1 + r.Intn(8)
		nPool = 1 + r.Intn(4)
	}
	if long {
		nOps = 100 + r.Intn(300)
		nPool = 20 + r.Intn(60)
	}
	bigTree := prop == "C17" && r.Chance(1, 150) // hundreds of nodes: a donor store larger than one write batch
	if bigTree {
		nOps = 350 + r.Intn(250)
		nPool = 300 + r.Intn(200)
		profile = []string{"fixed", "mixed"}[r.Intn(2)]
	}
	c := genCfg{prop: prop, nOps: nOps, pool: pathPool(r, profile, nPool)}
	c.valProfile = []string{"plain", "plain", "small", "sep", "bin"}[r.Intn(5)]
	c.wIns, c.wDel, c.wGet, c.wIter, c.wEmpty = 45, 25, 8, 2, 3
	switch prop {
	case "C01":
		c.children = r.Chance(1, 3)
		c.setver = r.Chance(1, 5)
		c.big = r.Chance(1, 400)
		if r.Chance(1, 4) { // separate fault-injecting configuration
			nf := 1 + r.Intn(3)
			for i := 0; i < nf; i++ {
				kinds := []string{"dbget", "dbput", "dbdel"}
				if s.Store == "lvlp" || s.Store == "p" || s.Store == "lvlpp" {
					kinds = append(kinds, "diskrd", "diskwr", "diskrd", "diskwr")
				}
				s.Faults = append(s.Faults, Fault{Kind: kinds[r.Intn(len(kinds))], N: 1 + r.Intn(nOps*4+4)})
			}
		}
	case "C02":
		c.children = r.Chance(1, 3)
		c.wGet, c.wIter = 2, 0
		if r.Chance(1, 2) {
			c.valProfile = "small"
		}
	case "C03":
		c.children = true
		c.wGet, c.wIter = 4, 1
	case "C14":
		c.children = r.Chance(1, 2)
		c.setver = r.Chance(1, 3) // nodes of several origins in one store stack
		c.valProfile = []string{"sep", "bin", "sep", "bin", "plain"}[r.Intn(5)]
		c.wGet, c.wIter = 4, 0
	case "C17":
		c.children = false
		c.wGet, c.wIter, c.wEmpty = 0, 0, 0
		c.wDel = 10
	}
	if c.children {
		c.wChild, c.wClose = 6, 7
	}
	if r.Chance(1, 700) {
		c.maxval = true
		if c.nOps > 8 {
			c.nOps = 8
		}
		switch r.Intn(3) {
		case 0: // a branch that carries a value of its own AND all sixteen children
			base := []string{"", "ab", "0f3c"}[r.Intn(3)]
			c.maxvalAt = base
			if base == "" {
				c.maxvalAt = "-"
			}
			c.pool = []string{base, base, base}
			for _, x := range "0123456789abcdef" {
				c.pool = append(c.pool, base+string(x)+string("0123456789abcdef"[r.Intn(16)]))
			}
			c.nOps = 30 + r.Intn(20)
			c.wDel, c.wEmpty = 4, 0
		case 1: // very long keys (the key is part of a leaf's encoding)
			n := 1 + r.Intn(3)
			c.pool = nil
			stem := strings.Repeat("5a", 500+r.Intn(600))
			for i := 0; i < n; i++ {
				c.pool = append(c.pool, stem[:2*(400+r.Intn(len(stem)/2-400))]+fmt.Sprintf("%02x", i)+strings.Repeat("c3", r.Intn(300)))
			}
		}
	}
	lastVals := map[string][][]byte{} // the last two distinct values written to a path
	hot := ""
	if c.children && r.Chance(1, 8) {
		hot = c.pool[r.Intn(len(c.pool))]
	}
	open := []int{0} // open trie ids
	parent := map[int]int{0: -1}
	next := 1
	n := 0
	for i := 0; i < c.nOps; i++ {
		t := open[r.Intn(len(open))]
		if prop == "C03" && len(open) > 1 && r.Chance(3, 4) {
			// bias towards children
			t = open[1+r.Intn(len(open)-1)]
		}
		w := []int{c.wIns, c.wDel, c.wGet, c.wIter, c.wEmpty, c.wChild, c.wClose}
		if len(open) >= 6 {
			w[5] = 0
		}
		k := r.Weighted(w)
		p := c.pool[r.Intn(len(c.pool))]
		switch k {
		case 0:
			n++
			if c.maxval && ((c.maxvalAt == "" && r.Chance(1, 3)) || (c.maxvalAt != "" && p == strings.TrimPrefix(c.maxvalAt, "-") && r.Chance(1, 2))) {
				s.Ops = append(s.Ops, Op{K: "insmax", T: t, P: p, V: []byte(fmt.Sprintf("V%d", n)), N: int64([]int{r.Intn(12), r.Intn(12), r.Intn(80), r.Intn(700)}[r.Intn(4)])})
				break
			}
			if hot != "" && r.Chance(2, 3) {
				p = hot // hot-key runs: most writes go to one path, alternating between a few values
			}
			v := genValue(r, c.valProfile, n)
			if olds := lastVals[p]; len(olds) > 0 && (r.Chance(1, 5) || (prop == "C03" && r.Chance(1, 4)) || (p == hot && r.Chance(2, 3))) {
				v = olds[r.Intn(len(olds))] // re-insert exactly what this path held before (in this trie or any other of the tree)
			} else {
				lastVals[p] = append(lastVals[p], v)
				if len(lastVals[p]) > 2 {
					lastVals[p] = lastVals[p][1:]
				}
			}
			s.Ops = append(s.Ops, Op{K: "ins", T: t, P: p, V: v})
		case 1:
			s.Ops = append(s.Ops, Op{K: "del", T: t, P: p})
		case 2:
			s.Ops = append(s.Ops, Op{K: "get", T: t, P: p})
		case 3:
			s.Ops = append(s.Ops, Op{K: "iter", T: t})
		case 4:
			s.Ops = append(s.Ops, Op{K: "insempty", T: t, P: p})
		case 5:
			// open a child of t (mostly of the root)
			if prop == "C03" && r.Chance(3, 5) {
				t = 0 // (otherwise: nested transactions, children of children)
			}
			s.Ops = append(s.Ops, Op{K: "child", T: t})
			open = append(open, next)
			parent[next] = t
			next++
		case 6:
			if t == 0 {
				continue
			}
			kind := "merge"
			if r.Chance(1, 3) {
				kind = "discard"
			}
			s.Ops = append(s.Ops, Op{K: kind, T: t})
			// close t and descendants
			closed := map[int]bool{t: true}
			for ch := true; ch; {
				ch = false
				for _, o := range open {
					if !closed[o] && closed[parent[o]] {
						closed[o] = true
						ch = true
					}
				}
			}
			var no []int
			for _, o := range open {
				if !closed[o] {
					no = append(no, o)
				}
			}
			open = no
		}
		if c.setver && r.Chance(1, 12) {
			s.Ops = append(s.Ops, Op{K: "setver", T: 0, N: int64(1 + r.Intn(60))})
		}
		if c.big && r.Chance(1, 10) {
			c.big = false
			s.Ops = append(s.Ops, Op{K: "insbig", T: 0, P: p})
		}
	}
	if prop == "C03" || (c.children && r.Chance(1, 2)) {
		// decide the fate of the remaining children in random order
		for len(open) > 1 {
			i := 1 + r.Intn(len(open)-1)
			t := open[i]
			kind := "merge"
			if r.Chance(1, 3) {
				kind = "discard"
			}
			s.Ops = append(s.Ops, Op{K: kind, T: t})
			closed := map[int]bool{t: true}
			for ch := true; ch; {
				ch = false
				for _, o := range open {
					if !closed[o] && closed[parent[o]] {
						closed[o] = true
						ch = true
					}
				}
			}
			var no []int
			for _, o := range open {
				if !closed[o] {
					no = append(no, o)
				}
			}
			open = no
		}
	}
	if prop == "C17" {
		op := Op{K: "lose", T: 0, N: int64(r.Intn(1000))}
		switch r.Intn(4) {
		case 0: // single node
			op.S = []int{r.Intn(1000)}
		case 1: // whole subtree
			op.S = []int{-1 - r.Intn(1000)}
		case 2: // scattered
			for j := 1 + r.Intn(6); j > 0; j-- {
				op.S = append(op.S, r.Intn(1000))
			}
		default: // mixture
			op.S = []int{-1 - r.Intn(1000), r.Intn(1000), r.Intn(1000)}
		}
		if bigTree {
			op.S = []int{-100000} // everything below the root
		}
		op.P = "samever"
		if r.Chance(1, 2) {
			op.P = "otherver"
		}
		s.Ops = append(s.Ops, op)
	}
	return s
}

// genNested: a block state, a transaction on it, and a sequence of sub-transactions of that transaction (each
// a child of the transaction, merged or discarded before the next one starts) that keep rewriting a few paths with
// a few values; then the transaction is merged into the block (or discarded) and another one may follow.
func genNested(s *TreeScript, r *sim.Rand) sim.Script {
	pool := pathPool(r, []string{"tiny", "fixed", "dense"}[r.Intn(3)], 2+r.Intn(4))
	vals := [][]byte{[]byte("x"), []byte("n"), []byte("m")}[:2+r.Intn(2)]
	write := func(t int) Op {
		p := pool[r.Intn(len(pool))]
		if r.Chance(1, 6) {
			return Op{K: "del", T: t, P: p}
		}
		return Op{K: "ins", T: t, P: p, V: vals[r.Intn(len(vals))]}
	}
	for i := 1 + r.Intn(4); i > 0; i-- {
		s.Ops = append(s.Ops, write(0))
	}
	next := 1
	for txn := 1 + r.Intn(3); txn > 0; txn-- {
		P := next
		next++
		s.Ops = append(s.Ops, Op{K: "child", T: 0})
		for sub := 1 + r.Intn(5); sub > 0; sub-- {
			if r.Chance(1, 5) {
				s.Ops = append(s.Ops, write(P)) // directly in the transaction
				continue
			}
			c := next
			next++
			s.Ops = append(s.Ops, Op{K: "child", T: P})
			for i := 1 + r.Intn(2); i > 0; i-- {
				s.Ops = append(s.Ops, write(c))
			}
			if r.Chance(5, 6) {
				s.Ops = append(s.Ops, Op{K: "merge", T: c})
			} else {
				s.Ops = append(s.Ops, Op{K: "discard", T: c})
			}
		}
		if r.Chance(4, 5) {
			s.Ops = append(s.Ops, Op{K: "merge", T: P})
		} else {
			s.Ops = append(s.Ops, Op{K: "discard", T: P})
		}
		if r.Chance(1, 2) {
			s.Ops = append(s.Ops, write(0))
		}
	}
	return s
}

// GenRounds generates a multi-round script (C04, C05).
func GenRounds(prop string, r *sim.Rand, tier string) sim.Script {
	s := &RoundScript{Prop: prop, Lag: r.Intn(3), Rebase: r.Chance(1, 2)}
	defer func() { s.WriteErr = s.WriteErr || r.Chance(1, 6) }() // drawn last
	profile := []string{"tiny", "fixed", "mixed", "dense", "dense"}[r.Intn(5)]
	nPool := 2 + r.Intn(8)
	nRounds := 1 + r.Intn(5)
	if prop == "C05" {
		nRounds = 2 + r.Intn(7)
	}
	maxTxn, maxOps := 4, 5
	if r.Chance(1, 40) { // medium-long: long-range interactions between early and late rounds
		nRounds = 10 + r.Intn(15)
		nPool = 6 + r.Intn(14)
	}
	long := tier == "thorough" && prop == "C05" && r.Chance(1, 150)
	if long {
		nRounds = 40 + r.Intn(40)
		nPool = 60 + r.Intn(60)
		maxTxn, maxOps = 6, 8
	}
	bigRound := -1
	if r.Chance(1, 120) { // one round that changes hundreds of nodes (batch thresholds)
		bigRound = r.Intn(nRounds)
		nPool = 200 + r.Intn(300)
		profile = []string{"fixed", "mixed"}[r.Intn(2)]
	}
	// one save of more than 2^16 nodes: minutes of CPU per run, thorough tier only
	giant := (tier == "thorough" && prop == "C04" && r.Chance(1, 30000)) || os.Getenv("VERIF_FORCE_PROFILE") == "giant"
	if giant {
		nRounds = 1 + r.Intn(2)
		bigRound = nRounds - 1
		nPool = 52000 + r.Intn(12000)
		profile = "fixed"
	}
	hugeRound := !giant && r.Chance(1, 3000) // ... or many thousands (a save of several batches, if the store splits it)
	if hugeRound {
		bigRound = r.Intn(nRounds)
		nPool = 3200 + r.Intn(1800)
		profile = "fixed"
		s.WriteErr = true
	}
	pool := pathPool(r, profile, nPool)
	valProfile := []string{"small", "small", "plain"}[r.Intn(3)]
	n := 0
	crafted := r.Chance(1, 20) // some values are the hash preimage of a node of the current state
	mut := func(t int) Op {
		p := pool[r.Intn(len(pool))]
		if r.Chance(1, 3) {
			return Op{K: "del", T: t, P: p}
		}
		if crafted && r.Chance(1, 3) {
			return Op{K: "inspre", T: t, P: p, N: int64(r.Intn(1000))}
		}
		n++
		return Op{K: "ins", T: t, P: p, V: genValue(r, valProfile, n)}
	}
	// sparse round numbers: every wideP rounds the version jumps so that its low bits repeat
	wideP, wideM := 0, int64(0)
	if r.Chance(1, 15) {
		wideP = 2 + r.Intn(3)
		wideM = []int64{1 << 16, 1 << 32, 1 << 32, 1 << 48}[r.Intn(4)]
	}
	for rd := 0; rd < nRounds; rd++ {
		gap := int64(0)
		if r.Chance(1, 6) {
			gap = int64(r.Intn(3))
		}
		if wideP > 0 {
			gap = 0
			if rd > 0 && rd%wideP == 0 {
				gap = wideM - int64(wideP)
			}
		}
		s.Ops = append(s.Ops, Op{K: "round", N: gap})
		kidx := 0
		if rd == bigRound {
			for t := 0; t < 4; t++ {
				s.Ops = append(s.Ops, Op{K: "child"})
				kidx++
				for k := 0; k < nPool/4; k++ {
					n++
					s.Ops = append(s.Ops, Op{K: "ins", T: kidx, P: pool[(t*(nPool/4)+k)%len(pool)], V: genValue(r, "plain", n)})
				}
				s.Ops = append(s.Ops, Op{K: "merge", T: kidx})
			}
		}
		syncAt := -1
		if rd > 0 && r.Chance(1, 10) {
			syncAt = r.Intn(maxTxn + 1)
		}
		for t := r.Intn(maxTxn + 1); t > 0; t-- {
			if t == syncAt {
				s.Ops = append(s.Ops, Op{K: "sync"})
			}
			if r.Chance(1, 5) {
				s.Ops = append(s.Ops, mut(0)) // direct block update
			}
			s.Ops = append(s.Ops, Op{K: "child"})
			kidx++
			for k := 1 + r.Intn(maxOps); k > 0; k-- {
				s.Ops = append(s.Ops, mut(kidx))
			}
			if r.Chance(3, 4) {
				s.Ops = append(s.Ops, Op{K: "merge", T: kidx})
			} else {
				s.Ops = append(s.Ops, Op{K: "discard", T: kidx})
			}
			if (prop == "C04" || prop == "C05") && r.Chance(1, 10) {
				s.Ops = append(s.Ops, Op{K: "midsave"})
			}
		}
		if syncAt == 0 {
			s.Ops = append(s.Ops, Op{K: "sync"})
		}
		if r.Chance(1, 4) {
			s.Ops = append(s.Ops, Op{K: "save"})
		}
		if prop == "C05" && rd > 0 && (r.Chance(1, 3) || (long && rd%10 == 9)) {
			s.Ops = append(s.Ops, Op{K: "prune", N: int64(r.Intn(rd + 4))})
		}
	}
	if prop == "C05" {
		s.Ops = append(s.Ops, Op{K: "prune", N: int64(r.Intn(nRounds + 4))})
	}
	return s
}

// GenSched generates a C16 script: a trie prepared sequentially, then 2-4 tasks on it.
func GenSched(r *sim.Rand, tier string) sim.Script {
	s := &TreeScript{Prop: "C16"}
	s.Store = []string{"mem", "lvlmem", "mem", "lvlp"}[r.Intn(4)]
	s.Cache = "own"
	s.Ver = int64(1 + r.Intn(20))
	profile := []string{"tiny", "dense", "tiny", "fixed"}[r.Intn(4)]
	pool := pathPool(r, profile, 2+r.Intn(3))
	n := 0
	for i := r.Intn(5); i > 0; i-- {
		n++
		s.Ops = append(s.Ops, Op{K: "ins", P: pool[r.Intn(len(pool))], V: []byte(fmt.Sprintf("s%d", n))})
	}
	lossy := len(s.Ops) >= 2 && r.Chance(1, 5)
	if lossy {
		s.Ops = append(s.Ops, Op{K: "lose", P: "norepair", S: []int{r.Intn(1000)}, N: int64(r.Intn(100))})
	}
	nt := 2 + r.Intn(3)
	s.LossyWrites = lossy && r.Chance(1, 2)
	if !lossy && r.Chance(1, 8) {
		// judged change counts: only plain writes and reads, at most five writes in all
		s.CountJudge = true
		left := 5
		for t := 0; t < nt && t < 3; t++ {
			var ops []Op
			for i := 2 + r.Intn(3); i > 0; i-- {
				p := pool[r.Intn(len(pool))]
				switch k := r.Intn(6); {
				case k <= 1 && left > 0:
					n++
					left--
					ops = append(ops, Op{K: "ins", P: p, V: []byte(fmt.Sprintf("t%d", n))})
				case k == 2 && left > 0:
					left--
					ops = append(ops, Op{K: "del", P: p})
				case k == 3:
					ops = append(ops, Op{K: "get", P: p})
				default:
					ops = append(ops, Op{K: "count"})
				}
			}
			s.Tasks = append(s.Tasks, ops)
		}
		s.Strategy = []string{"rw", "rw", "pct", "rub", "stall"}[r.Intn(5)]
		s.SchedSeed = r.U64()
		return s
	}
	if !lossy && r.Chance(1, 7) {
		// judged saves: plain writes, reads and saves (half of them abandoned by their caller)
		s.SaveJudge = true
		s.Reopen = r.Chance(1, 2)
		for t := 0; t < nt && t < 3; t++ {
			var ops []Op
			for i := 2 + r.Intn(4); i > 0; i-- {
				p := pool[r.Intn(len(pool))]
				switch r.Weighted([]int{30, 12, 10, 12, 25, 4}) {
				case 0:
					n++
					ops = append(ops, Op{K: "ins", P: p, V: []byte(fmt.Sprintf("t%d", n))})
				case 1:
					ops = append(ops, Op{K: "del", P: p})
				case 2:
					ops = append(ops, Op{K: "get", P: p})
				case 3:
					ops = append(ops, Op{K: "save", N: int64([]int{0, 1, 0, 2}[r.Intn(4)])}) // N=1: with deletes (Reopen runs); N=2: the store refuses the write
				case 4:
					ops = append(ops, Op{K: "savecancel", N: int64(r.Intn(2))})
				default:
					ops = append(ops, Op{K: "iter"})
				}
			}
			s.Tasks = append(s.Tasks, ops)
		}
		s.Strategy = []string{"rw", "rw", "pct", "rub", "stall"}[r.Intn(5)]
		s.SchedSeed = r.U64()
		return s
	}
	for t := 0; t < nt; t++ {
		var ops []Op
		for i := 2 + r.Intn(5); i > 0; i-- {
			p := pool[r.Intn(len(pool))]
			w := []int{30, 18, 25, 8, 5, 4, 3, 4, 3, 6, 3, 3, 3, 3}
			if lossy {
				w = []int{0, 0, 40, 10, 5, 15, 10, 0, 3, 0, 3, 0, 0, 3}
				if s.LossyWrites {
					w[0], w[1] = 14, 8 // writers next to readers that run into absent nodes: only the panic / deadlock / race clauses are judged
				}
			}
			switch r.Weighted(w) {
			case 0:
				n++
				ops = append(ops, Op{K: "ins", P: p, V: []byte(fmt.Sprintf("t%d", n))})
			case 1:
				ops = append(ops, Op{K: "del", P: p})
			case 2:
				ops = append(ops, Op{K: "get", P: p})
			case 3:
				ops = append(ops, Op{K: "iter"})
			case 4:
				ops = append(ops, Op{K: "changes"})
			case 5:
				ops = append(ops, Op{K: "missing"})
			case 6:
				ops = append(ops, Op{K: "hasmissing"})
			case 7:
				ops = append(ops, Op{K: "save"})
			case 8:
				ops = append(ops, Op{K: "root"})
			case 9:
				n++
				ops = append(ops, Op{K: "mchild", P: p, V: []byte(fmt.Sprintf("m%d", n))})
			case 10:
				ops = append(ops, Op{K: "validate"})
			case 11:
				n++
				ops = append(ops, Op{K: "mergedb", P: p, V: []byte(fmt.Sprintf("d%d", n))})
			case 12:
				ops = append(ops, Op{K: "savecancel"})
			case 13:
				ops = append(ops, Op{K: "pp"})
			}
		}
		s.Tasks = append(s.Tasks, ops)
	}
	s.Strategy = []string{"rw", "rw", "pct", "rub", "stall"}[r.Intn(5)]
	s.SchedSeed = r.U64()
	return s
}
