package mptsim

import (
	"bytes"
	"context"
	"encoding/binary"
	"encoding/json"
	"fmt"
	"sort"

	"github.com/0chain/common/core/statecache"
	"github.com/0chain/common/core/util"
	"github.com/linxGnu/grocksdb"
	"golang.org/x/crypto/sha3"

	"verif/harness/sim"
)

// RoundScript: multi-round histories on a persistent store (C04, C05).
//
//	round            open a new block state on top of the latest block (version +1, or +N)
//	child/ins/del/merge/discard   transaction work inside the current block (T=0 block, T>=1 its children)
//	save             record the dead nodes of the oldest unsaved block and save it (includeDeletes=false),
//	                 with crash enumeration over the write stream
//	prune N          PruneBelowVersion(v) with crash enumeration over its delete stream
type RoundScript struct {
	Prop     string `json:"prop"`
	Lag      int    `json:"lag"`                 // how many later rounds are executed before a round is saved (0..2)
	Rebase   bool   `json:"rebase"`              // rebase a block's level DB onto the persistent store after saving it
	WriteErr bool   `json:"write_err,omitempty"` // half of the saves meet one injected write error (no crash) and are retried
	Ops      []Op   `json:"ops"`
}

func (s *RoundScript) Len() int { return len(s.Ops) }
func (s *RoundScript) Without(drop []int) sim.Script {
	d := map[int]bool{}
	for _, i := range drop {
		d[i] = true
	}
	c := *s
	c.Ops = nil
	for i, o := range s.Ops {
		if !d[i] {
			c.Ops = append(c.Ops, o)
		}
	}
	return &c
}
func (s *RoundScript) Simpler() []sim.Script {
	var out []sim.Script
	mod := func(f func(c *RoundScript)) {
		c := *s
		c.Ops = append([]Op{}, s.Ops...)
		f(&c)
		out = append(out, &c)
	}
	if s.Lag > 0 {
		mod(func(c *RoundScript) { c.Lag = s.Lag - 1 })
	}
	if s.Rebase {
		mod(func(c *RoundScript) { c.Rebase = false })
	}
	for i, o := range s.Ops {
		i, o := i, o
		if len(o.V) > 1 {
			mod(func(c *RoundScript) { c.Ops[i].V = o.V[:1] })
		}
		if len(o.P) >= 2 {
			np := o.P[:len(o.P)-2]
			mod(func(c *RoundScript) {
				for j := range c.Ops {
					if c.Ops[j].P == o.P {
						c.Ops[j].P = np
					}
				}
			})
		}
		if o.N > 1 {
			mod(func(c *RoundScript) { c.Ops[i].N = o.N - 1 })
		}
	}
	return out
}

func DecodeRounds(b []byte) (sim.Script, error) {
	s := &RoundScript{}
	if err := json.Unmarshal(b, s); err != nil {
		return nil, err
	}
	return s, nil
}

type blk struct {
	ver      int64
	prevRoot util.Key
	prior    util.NodeDB
	ldb      *util.LevelNodeDB
	mpt      *util.MerklePatriciaTrie
	ops      []Op
	kids     []*kid
	closed   bool
	saved    bool
	l0, l1   int    // log range of this round's save stream
	mids     []*blk // roots of this round that were saved while the round was still going on
	root     util.Key
	content  map[string]string
	dead     map[string]bool
	reach    map[string]bool
}

type kid struct {
	mpt  *util.MerklePatriciaTrie
	open bool
	par  *util.MerklePatriciaTrie
	kids []*kid
}

type rworld struct {
	s      *RoundScript
	prop   string
	path   string
	disk   *grocksdb.Disk
	pndb   *util.PNodeDB
	blocks []*blk
	stats  sim.Stats
	log    *sim.Log
	v      *sim.Violation
	step   int
	pruned int64 // versions below this may be unreadable
	states map[string]bool
	nclone int
}

func (w *rworld) fail(oracle, class, f string, a ...interface{}) {
	if w.v == nil {
		w.v = &sim.Violation{Property: w.prop, Oracle: oracle, Class: class, Detail: fmt.Sprintf(f, a...), Step: w.step}
	}
}

func (w *rworld) guard(what string, f func()) (panicked bool) {
	defer func() {
		if r := recover(); r != nil {
			panicked = true
			w.fail("panic", "panic:"+firstLine(fmt.Sprint(r)), "%s panicked: %v", what, r)
		}
	}()
	f()
	return false
}

func newBlock(prior util.NodeDB, prevRoot util.Key, ver int64) *blk {
	b := &blk{ver: ver, prevRoot: prevRoot, prior: prior}
	b.ldb = util.NewLevelNodeDB(util.NewMemoryNodeDB(), prior, false)
	b.mpt = util.NewMerklePatriciaTrie(b.ldb, util.Sequence(ver), prevRoot, statecache.NewEmpty())
	return b
}

// applyTxn applies one transaction-level op to block b (also used for re-execution).
func applyTxn(b *blk, op Op) {
	// flat list of kids in creation order: index 1.. ; 0 = block
	var flat []*kid
	var walk func(ks []*kid)
	walk = func(ks []*kid) {
		for _, k := range ks {
			flat = append(flat, k)
		}
	}
	walk(b.kids)
	get := func(t int) (*util.MerklePatriciaTrie, *kid) {
		if t == 0 {
			return b.mpt, nil
		}
		if t-1 < len(flat) && flat[t-1].open {
			return flat[t-1].mpt, flat[t-1]
		}
		return nil, nil
	}
	m, k := get(op.T)
	if m == nil {
		return
	}
	anyOpen := func() bool {
		for _, x := range flat {
			if x.open {
				return true
			}
		}
		return false
	}
	switch op.K {
	case "ins":
		if k == nil && anyOpen() {
			return // block frozen while a transaction state is open
		}
		m.Insert(util.Path(op.P), val(op.V))
	case "inspre":
		// a caller-chosen value that is, byte for byte, what some node of the current state is hashed from: the
		// hash of this value equals the key of that node (values and nodes share one hash space)
		if k == nil && anyOpen() {
			return
		}
		nodes := reach(m.GetNodeDB(), m.GetRoot())
		if len(nodes) == 0 {
			return
		}
		if pre := hashPreimage(nodes[int(op.N)%len(nodes)].node); pre != nil {
			m.Insert(util.Path(op.P), val(pre))
		}
	case "del":
		if k == nil && anyOpen() {
			return
		}
		m.Delete(util.Path(op.P))
	case "child":
		if anyOpen() { // transactions run one at a time
			return
		}
		db := util.NewLevelNodeDB(util.NewMemoryNodeDB(), b.ldb, false)
		c := &kid{open: true, par: b.mpt}
		c.mpt = util.NewMerklePatriciaTrie(db, util.Sequence(b.ver), b.mpt.GetRoot(), statecache.NewEmpty())
		b.kids = append(b.kids, c)
	case "merge":
		if k != nil {
			k.par.MergeMPTChanges(k.mpt)
			k.open = false
		}
	case "discard":
		if k != nil {
			k.open = false
		}
	case "sync":
		// state sync inside a round: the complete state of the previous round is merged into the block's
		// trie from a separate store and the block returns to that root (whatever it deleted locally is
		// referenced again)
		if k != nil || anyOpen() || len(b.prevRoot) == 0 {
			return
		}
		donor := util.NewMemoryNodeDB()
		set, missing := reachSet(b.prior, b.prevRoot)
		if missing > 0 {
			return
		}
		keys := make([]string, 0, len(set))
		for h := range set {
			keys = append(keys, h)
		}
		sort.Strings(keys)
		for _, h := range keys {
			n, err := b.prior.GetNode(util.Key(h))
			if err != nil {
				return
			}
			donor.PutNode(util.Key(h), n.CloneNode())
		}
		// the dead-node list handed to MergeDB belongs to the caller: one node that exists nowhere (recording it
		// dead is harmless), and afterwards the caller reuses its slice for a node that is very much alive
		dead := []util.Node{util.NewLeafNode(util.Path(""), util.Path("ff"), util.Sequence(b.ver), val([]byte(fmt.Sprintf("nowhere-%d", b.ver))))}
		m.MergeDB(donor, b.prevRoot, dead)
		if live, err := b.prior.GetNode(b.prevRoot); err == nil {
			dead[0] = live.CloneNode()
		}
	}
}

func hashesOf(nodes []util.Node) map[string]bool {
	m := map[string]bool{}
	for _, n := range nodes {
		m[string(n.GetHashBytes())] = true
	}
	return m
}

// reachSet walks db from root and returns the keys of all nodes found;
// missing is the number of referenced nodes that could not be read.
func reachSet(db util.NodeDB, root util.Key) (set map[string]bool, missing int) {
	set = map[string]bool{}
	var walk func(k util.Key)
	walk = func(k util.Key) {
		if set[string(k)] {
			return
		}
		n, err := db.GetNode(k)
		if err != nil {
			missing++
			return
		}
		set[string(k)] = true
		switch x := n.(type) {
		case *util.FullNode:
			for _, c := range x.Children {
				if c != nil {
					walk(c)
				}
			}
		case *util.ExtensionNode:
			walk(x.NodeKey)
		}
	}
	if len(root) > 0 {
		walk(root)
	}
	return
}

// hashPreimage returns the bytes a node's key is the hash of: LE64(origin) followed by the node's body, i.e. its
// encoding without the header. The header length is not assumed: the candidate is accepted only if it hashes to the
// node's key.
func hashPreimage(n util.Node) []byte {
	enc := n.Encode()
	var o [8]byte
	binary.LittleEndian.PutUint64(o[:], uint64(n.GetOrigin()))
	for off := 0; off <= 40 && off <= len(enc); off++ {
		pre := append(append([]byte{}, o[:]...), enc[off:]...)
		d := sha3.New256()
		d.Write(pre)
		if bytes.Equal(d.Sum(nil), n.GetHashBytes()) {
			return pre
		}
	}
	return nil
}

// readRoot opens a fresh trie on db alone and reads everything.
func readRoot(db util.NodeDB, root util.Key, ver int64) (map[string]string, bool, error) {
	t := util.NewMerklePatriciaTrie(db, util.Sequence(ver), root, statecache.NewEmpty())
	missing, err := t.HasMissingNodes(context.Background())
	if err != nil {
		return nil, missing, err
	}
	c, _, cerr := content(t)
	return c, missing, cerr
}

func (w *rworld) openPNodeDB(d *grocksdb.Disk) (*util.PNodeDB, string) {
	w.nclone++
	path := fmt.Sprintf("%s/clone%d", w.path, w.nclone)
	grocksdb.SimSetDisk(path, d)
	p, err := util.NewPNodeDB(path, "")
	if err != nil {
		panic(err)
	}
	return p, path
}

// checkRetained: every saved, unpruned round must be fully readable from db alone.
func (w *rworld) checkRetained(db util.NodeDB, upto int, oracle, where string) {
	for i := 0; i <= upto && i < len(w.blocks) && w.v == nil; i++ {
		b := w.blocks[i]
		if !b.saved || b.ver < w.pruned {
			continue
		}
		w.checkRound(db, b, oracle, where)
	}
}

func (w *rworld) checkRound(db util.NodeDB, b *blk, oracle, where string) {
	var c map[string]string
	var missing bool
	var err error
	if w.guard("read saved root", func() { c, missing, err = readRoot(db, b.root, b.ver) }) {
		return
	}
	w.stats.Inc("check.saved-root-read")
	if missing {
		w.fail(oracle, where+":missing-nodes", "%s: root of round %d (%x) has missing nodes on the persistent store", where, b.ver, b.root)
		return
	}
	if err != nil {
		w.fail(oracle, where+":unreadable", "%s: root of round %d unreadable: %v", where, b.ver, err)
		return
	}
	if d := diffMaps(b.content, c); d != "" {
		w.fail(oracle, where+":content", "%s: round %d reads differently from what was saved: %s", where, b.ver, d)
	}
}

// ExecRounds executes a RoundScript.
func ExecRounds(sc sim.Script) *sim.Outcome {
	s := sc.(*RoundScript)
	worldSeq++
	w := &rworld{s: s, prop: s.Prop, stats: sim.Stats{}, log: &sim.Log{}, states: map[string]bool{}, path: fmt.Sprintf("sim://rounds/%d", worldSeq)}
	w.disk = grocksdb.NewDisk()
	w.pndb, _ = w.openPNodeDB(w.disk)
	defer func() {
		for i := 0; i <= w.nclone; i++ {
			grocksdb.SimDropDisk(fmt.Sprintf("%s/clone%d", w.path, i))
		}
	}()
	for i, op := range s.Ops {
		w.step = i
		w.stats.Inc("op." + op.K)
		w.apply(op)
		if w.v != nil {
			break
		}
	}
	if w.v == nil {
		w.step = len(s.Ops)
		for w.v == nil && w.saveOldest() {
		}
	}
	o := &sim.Outcome{V: w.v, Stats: w.stats}
	for k := range w.states {
		o.States = append(o.States, k)
	}
	sort.Strings(o.States)
	o.Digest = w.log.Digest()
	o.Nontrivial = w.stats["crash.points"] > 0 && w.stats["mut"] >= 2
	return o
}

func (w *rworld) cur() *blk {
	if len(w.blocks) == 0 {
		return nil
	}
	b := w.blocks[len(w.blocks)-1]
	if b.closed {
		return nil
	}
	return b
}

func (w *rworld) openRound(gap int64) {
	var prior util.NodeDB = w.pndb
	var root util.Key
	ver := int64(1)
	if n := len(w.blocks); n > 0 {
		last := w.blocks[n-1]
		w.closeBlock(last)
		root = last.root
		ver = last.ver + 1 + gap
		// an unsaved block (save lag) or, without rebasing, any previous block
		// is read through its own level DB; otherwise the persistent store
		if !last.saved || !w.s.Rebase {
			prior = last.ldb
		}
	}
	w.blocks = append(w.blocks, newBlock(prior, root, ver))
	w.stats.Inc("probe.round")
}

func (w *rworld) closeBlock(b *blk) {
	if b.closed {
		return
	}
	for _, k := range b.kids {
		k.open = false
	}
	b.closed = true
	b.root = append(util.Key{}, b.mpt.GetRoot()...)
	c, _, err := content(util.NewMerklePatriciaTrie(b.ldb, util.Sequence(b.ver), b.root, statecache.NewEmpty()))
	if err != nil {
		w.fail("c04.live", "live-block-unreadable", "live block of round %d unreadable before save: %v", b.ver, err)
	}
	b.content = c
}

func (w *rworld) apply(op Op) {
	switch op.K {
	case "round":
		// unsaved blocks beyond the lag must be saved first
		for w.v == nil && w.unsaved() > w.s.Lag {
			w.saveOldest()
		}
		w.openRound(op.N)
	case "save":
		w.saveOldest()
	case "prune":
		w.prune(op.N)
	case "midsave":
		// the round's state is saved while the round still goes on (and is saved again at its end): a root that
		// was saved stays readable, also after the same trie has been saved once more
		b := w.cur()
		if b == nil || w.unsaved() != 1 {
			return
		}
		for _, k := range b.kids {
			if k.open {
				return
			}
		}
		root := append(util.Key{}, b.mpt.GetRoot()...)
		c, _, cerr := content(util.NewMerklePatriciaTrie(b.ldb, util.Sequence(b.ver), root, statecache.NewEmpty()))
		if cerr != nil || len(root) == 0 {
			return
		}
		var err error
		if w.guard("SaveChanges (mid-round)", func() {
			if w.prop == "C05" {
				// a round saved in two steps records its dead nodes at both; the record of the final save replaces this one
				if err = w.pndb.RecordDeadNodes(b.mpt.GetDeletes(), b.ver); err != nil {
					return
				}
				w.stats.Inc("probe.mid-round-dead-record")
			}
			err = b.mpt.SaveChanges(context.Background(), w.pndb, false)
		}) {
			return
		}
		if err != nil {
			w.fail("c04.save", "mid-round-save-error", "saving round %d mid-way failed: %v", b.ver, err)
			return
		}
		b.mids = append(b.mids, &blk{ver: b.ver, root: root, content: c, saved: true})
		w.stats.Inc("probe.mid-round-save")
	default:
		b := w.cur()
		if b == nil {
			for w.v == nil && w.unsaved() > w.s.Lag {
				w.saveOldest()
			}
			w.openRound(0)
			b = w.cur()
		}
		if op.K == "inspre" {
			w.stats.Inc("probe.value-is-the-hash-preimage-of-a-node")
		}
		if op.K == "ins" || op.K == "del" || op.K == "inspre" {
			w.stats.Inc("mut")
		}
		b.ops = append(b.ops, op)
		w.guard("txn op "+op.K, func() { applyTxn(b, op) })
	}
}

func (w *rworld) unsaved() int {
	n := 0
	for _, b := range w.blocks {
		if !b.saved {
			n++
		}
	}
	return n
}

// saveOldest records the dead nodes of the oldest unsaved block and saves it,
// enumerating every crash point of the write stream.
func (w *rworld) saveOldest() bool {
	var b *blk
	idx := -1
	for i, x := range w.blocks {
		if !x.saved {
			b, idx = x, i
			break
		}
	}
	if b == nil {
		return false
	}
	w.closeBlock(b)
	if w.v != nil {
		return false
	}
	deletes := b.mpt.GetDeletes()
	b.dead = hashesOf(deletes)
	l0 := w.disk.LogLen()
	var err error
	save := func() {
		if err = w.pndb.RecordDeadNodes(deletes, b.ver); err != nil {
			return
		}
		err = b.mpt.SaveChanges(context.Background(), w.pndb, false)
	}
	if w.s.WriteErr {
		// separate fault-injecting configuration: one write of this save's stream returns an I/O error (nothing is
		// applied, nothing crashes); the caller sees the error and saves again, with the same objects
		if fr := sim.NewRand(uint64(b.ver)*131 + uint64(idx)*7 + 1); fr.Chance(1, 2) || len(b.ops) > 2000 {
			before := w.disk.St.WriteErrs
			j := fr.Intn(3)
			if fr.Chance(1, 3) {
				j = fr.Intn(6) // a later write of a save that needs several batches
			}
			w.disk.FailWrite = map[int]bool{w.disk.St.Writes + 1 + j: true}
			if w.guard("RecordDeadNodes/SaveChanges under a write error", save) {
				return false
			}
			w.disk.FailWrite = nil
			if w.disk.St.WriteErrs > before {
				w.stats.Inc("fault.write-error-in-save")
				if err == nil {
					w.fail("c04.save", "write-error-swallowed", "a write of the save of round %d failed with an injected I/O error and the save reported success", b.ver)
					return false
				}
				if j == 0 && idx == len(w.blocks)-1 && len(b.mids) == 0 && fr.Chance(1, 2) {
					// the very first write of the save (the dead-node record) failed: nothing of this block reached the
					// store. Instead of trying again the caller gives the block up; the round is executed again later with
					// whatever the script does next (another block for the same round).
					w.blocks = w.blocks[:idx]
					w.stats.Inc("probe.block-given-up-after-its-first-write-failed")
					return true
				}
				w.stats.Inc("probe.save-retried-after-a-write-error")
			}
		}
	}
	if w.guard("RecordDeadNodes/SaveChanges", save) {
		return false
	}
	if err != nil {
		w.fail("c04.save", "save-error", "saving round %d failed: %v", b.ver, err)
		return false
	}
	b.saved = true
	l1 := w.disk.LogLen()
	b.l0, b.l1 = l0, l1
	w.log.Printf("save v=%d root=%x content=%s dead=%d writes=%d", b.ver, b.root, mapDigest(b.content), len(b.dead), l1-l0)
	w.stats.Inc("probe.save")
	if len(b.dead) > 0 {
		w.stats.Inc("probe.save-with-dead-nodes")
	}
	if w.s.Rebase {
		b.mpt.SetNodeDB(w.pndb)
	}
	// ---- C04: complete after save (this and every earlier unpruned round)
	if w.prop == "C04" {
		w.checkRetained(w.pndb, idx, "c04.complete", "after-save")
		for _, m := range b.mids {
			if w.v == nil {
				w.checkRound(w.pndb, m, "c04.complete", "mid-round-root-after-final-save")
			}
		}
	}
	// ---- C05 oracle 1: dead sets never intersect this or later roots
	b.reach, _ = reachSet(w.pndb, b.root)
	if w.prop == "C05" {
		for i := 0; i <= idx && w.v == nil; i++ {
			e := w.blocks[i]
			for h := range e.dead {
				if b.reach[h] {
					w.fail("c05.dead-live", fmt.Sprintf("dead-reachable:lag%d", w.s.Lag), "node %x recorded dead in round %d is reachable from the root of round %d", h, e.ver, b.ver)
					break
				}
			}
		}
	}
	w.states[sim.Digest(mapDigest(b.content))] = true
	if w.v != nil || w.prop != "C04" {
		return true
	}
	// ---- C04 crash enumeration: every prefix of this save's write stream
	n := l1 - l0
	points := make([]int, 0, n)
	for j := l0; j < l1; j++ {
		points = append(points, j)
	}
	if len(points) > 64 {
		points = append(points[:32], points[len(points)-32:]...)
	}
	if len(b.ops) > 20000 && len(points) > 1 {
		points = points[len(points)-1:] // (tens of thousands of operations: one crash point, right before the last write)
	}
	if len(b.ops) > 2000 && len(points) > 4 {
		points = append(points[:2], points[len(points)-2:]...) // (a round of thousands of operations: re-executing it is expensive)
	}
	// power-loss variants: prefixes inside earlier rounds' streams, not before the last flush
	lf := w.disk.LastFlush()
	if l0 > lf {
		r := sim.NewRand(uint64(l0)*31 + uint64(w.step))
		for k := 0; k < 2; k++ {
			points = append(points, lf+r.Intn(l0-lf))
		}
	}
	for _, j := range points {
		if w.v != nil {
			break
		}
		w.crashAt(j, l0, idx)
	}
	return true
}

// crashAt: the disk survives with exactly the first j log entries.  Rounds
// whose save lies completely inside the prefix must be readable; the
// interrupted round is re-executed from the script and saved again.
func (w *rworld) crashAt(j, l0, idx int) {
	w.stats.Inc("crash.points")
	kind := "process-crash"
	if j < l0 {
		kind = "power-loss"
	}
	w.stats.Inc("fault." + kind)
	clone := w.disk.CloneAtPrefix(j)
	p, _ := w.openPNodeDB(clone)
	// which rounds are complete inside the prefix?  saves are sequential, so
	// find the first round whose save is not fully contained.
	first := idx
	if j < l0 {
		// power loss: earlier rounds whose save stream is not completely inside the surviving prefix are lost as well
		for first > 0 && w.blocks[first-1].l1 > j {
			first--
		}
		w.stats.Inc("probe.power-loss-rolled-back-rounds")
	}
	// (a) rounds before `first` were saved inside the surviving prefix
	for i := 0; i < first && w.v == nil; i++ {
		if w.blocks[i].ver < w.pruned {
			continue
		}
		w.checkRound(p, w.blocks[i], "c04.crash", kind+":earlier-round")
	}
	if w.v != nil {
		return
	}
	// (b) re-execute rounds first..idx from the script on the surviving store and save again
	var prevRoot util.Key
	if first > 0 {
		prevRoot = w.blocks[first-1].root
	}
	for i := first; i <= idx && w.v == nil; i++ {
		orig := w.blocks[i]
		nb := newBlock(p, prevRoot, orig.ver)
		var err error
		if w.guard("re-execute round", func() {
			for _, op := range orig.ops {
				applyTxn(nb, op)
			}
			if err = p.RecordDeadNodes(nb.mpt.GetDeletes(), nb.ver); err != nil {
				return
			}
			err = nb.mpt.SaveChanges(context.Background(), p, false)
		}) {
			return
		}
		if err != nil {
			w.fail("c04.crash", kind+":resave-error", "re-saving round %d after a crash at write %d failed: %v", orig.ver, j, err)
			return
		}
		if !bytes.Equal(nb.mpt.GetRoot(), orig.root) {
			w.fail("c04.crash", kind+":reexec-root", "re-executing round %d after a crash at write %d gives root %x, originally %x", orig.ver, j, nb.mpt.GetRoot(), orig.root)
			return
		}
		w.checkRound(p, orig, "c04.crash", kind+":reexecuted-round")
		prevRoot = orig.root
	}
	w.stats.Inc("probe.reexecuted-after-crash")
	w.log.Printf("crash j=%d kind=%s first=%d ok=%v", j, kind, first, w.v == nil)
}

// ---------------------------------------------------------------- prune (C05)

func (w *rworld) keySets(d *grocksdb.Disk) (nodes, recs map[string]bool) {
	nodes, recs = map[string]bool{}, map[string]bool{}
	for _, k := range d.Keys(0) {
		nodes[string(k)] = true
	}
	for _, k := range d.Keys(1) {
		recs[string(k)] = true
	}
	return
}

func (w *rworld) prune(n int64) {
	// everything executed so far is saved first (prune runs against saved state)
	for w.v == nil && w.saveOldest() {
	}
	if w.v != nil || len(w.blocks) == 0 {
		return
	}
	maxv := w.blocks[len(w.blocks)-1].ver
	v := n % (maxv + 3)
	if v < w.pruned {
		v = w.pruned
	}
	allowed := map[string]bool{}
	for _, b := range w.blocks {
		if b.ver < v {
			for h := range b.dead {
				allowed[h] = true
			}
		}
	}
	beforeNodes, _ := w.keySets(w.disk)
	l0 := w.disk.LogLen()
	var err error
	if w.guard("PruneBelowVersion", func() { err = w.pndb.PruneBelowVersion(context.Background(), v) }) {
		return
	}
	if err != nil {
		w.fail("c05.prune", "prune-error", "PruneBelowVersion(%d) returned %v", v, err)
		return
	}
	l1 := w.disk.LogLen()
	w.stats.Inc("probe.prune")
	w.log.Printf("prune v=%d writes=%d", v, l1-l0)
	if v > w.pruned {
		w.pruned = v
	}
	batches := 0
	for _, e := range w.disk.Log(l0, l1) {
		if len(e.Ops) > 0 && e.Ops[0].CF == 0 {
			batches++
		}
	}
	if batches >= 2 {
		w.stats.Inc("probe.prune-multi-batch")
	}
	check := func(d *grocksdb.Disk, db util.NodeDB, where string, complete bool) {
		afterNodes, afterRecs := w.keySets(d)
		ndel := 0
		for k := range beforeNodes {
			if !afterNodes[k] {
				ndel++
				if !allowed[k] {
					w.fail("c05.prune", where+":deleted-unrecorded", "%s: prune(%d) deleted node %x which no round below %d recorded dead", where, v, k, v)
					return
				}
			}
		}
		if ndel > 0 {
			w.stats.Inc("probe.prune-deleted-nodes")
		}
		for _, b := range w.blocks {
			if w.v != nil {
				return
			}
			if b.saved && b.ver >= v {
				w.checkRound(db, b, "c05.prune", where)
			}
		}
		if complete {
			for _, b := range w.blocks {
				if b.ver < v && b.saved {
					k := make([]byte, 8)
					for i := 0; i < 8; i++ {
						k[7-i] = byte(uint64(b.ver) >> (8 * uint(i)))
					}
					if afterRecs[string(k)] {
						w.fail("c05.prune", where+":record-left", "%s: dead-node record of round %d still present after a completed prune(%d)", where, b.ver, v)
						return
					}
				}
			}
		}
	}
	check(w.disk, w.pndb, "after-prune", true)
	if w.v != nil {
		return
	}
	// crash at every write index of the prune's stream, then re-run
	n2 := l1 - l0
	for j := 0; j <= n2 && w.v == nil; j++ {
		if n2 > 48 && j > 24 && j < n2-24 {
			continue
		}
		w.stats.Inc("crash.points")
		w.stats.Inc("fault.crash-in-prune")
		c := w.disk.CloneAtPrefix(l0 + j)
		p, _ := w.openPNodeDB(c)
		check(c, p, "crash-in-prune", false)
		if w.v != nil {
			return
		}
		if w.guard("re-run PruneBelowVersion", func() { err = p.PruneBelowVersion(context.Background(), v) }) {
			return
		}
		if err != nil {
			w.fail("c05.prune", "rerun-error", "re-running prune after a crash failed: %v", err)
			return
		}
		check(c, p, "rerun-after-crash", true)
	}
}
