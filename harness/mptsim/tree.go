package mptsim

import (
	"bytes"
	"context"
	"fmt"
	"sort"
	"strings"

	"github.com/0chain/common/core/statecache"
	"github.com/0chain/common/core/util"

	"verif/harness/refmpt"
	"verif/harness/sim"
)

// ExecTree executes a TreeScript with the oracles of script.Prop enabled.
func ExecTree(sc sim.Script) *sim.Outcome {
	s := sc.(*TreeScript)
	w := newWorld(s)
	defer w.close()
	for i, op := range s.Ops {
		w.step = i
		w.apply(op)
		if w.v != nil {
			break
		}
	}
	if w.v == nil {
		w.step = len(s.Ops)
		w.final()
	}
	if w.disk != nil {
		w.stats.Add("fault.diskrd", int64(w.disk.St.ReadErrs))
		w.stats.Add("fault.diskwr", int64(w.disk.St.WriteErrs))
		w.stats.Add("sim.disk-writes", int64(w.disk.St.Writes))
		w.stats.Add("sim.disk-reads", int64(w.disk.St.Reads))
	}
	for _, t := range w.tries {
		w.log.Printf("trie %d open=%v root=%x model=%s", t.id, t.open, t.mpt.GetRoot(), mapDigest(t.model))
	}
	o := &sim.Outcome{V: w.v, Stats: w.stats, Digest: w.log.Digest()}
	for k := range w.states {
		o.States = append(o.States, k)
	}
	sort.Strings(o.States)
	o.Nontrivial = w.stats["mut"] >= 2 && (w.stats["probe.any"] > 0 || w.stats["fault.any"] > 0)
	return o
}

func (w *world) has(p string) bool { return w.prop == p }

// observer returns the trie object through which the harness reads t's
// content.  Reading through t itself warms t's node cache with private copies,
// which changes what later operations fetch; in "fresh" runs every harness
// read goes through a throw-away trie object on the same store, root and
// version with an empty cache, so the trie under test is not perturbed.
func (w *world) observer(t *inst) *util.MerklePatriciaTrie {
	if w.s.Observe == "clone" {
		return util.CloneMPT(t.mpt)
	}
	if w.s.Observe != "fresh" {
		return t.mpt
	}
	return util.NewMerklePatriciaTrie(t.db, util.Sequence(t.ver), t.mpt.GetRoot(), statecache.NewEmpty())
}

func (w *world) hasOpenChildren(t *inst) bool {
	for _, c := range w.tries {
		if c.parent == t && c.open {
			return true
		}
	}
	return false
}

func (w *world) apply(op Op) {
	w.stats.Inc("op." + op.K)
	switch op.K {
	case "ins", "insempty", "insbig", "insmax", "del", "setver", "lose":
		// Outside C03 a trie is frozen while it has open children (a block
		// state is not modified while a transaction state is open on it), so
		// that no child is ever stale; C03 generates stale children on purpose.
		if t := w.get(op.T); t != nil && !w.has("C03") && w.hasOpenChildren(t) {
			w.stats.Inc("skipped.frozen-parent")
			return
		}
	}
	switch op.K {
	case "ins", "insempty", "insbig", "insmax":
		if t := w.get(op.T); t != nil {
			w.opInsert(t, op)
		}
	case "del":
		if t := w.get(op.T); t != nil {
			w.opDelete(t, op)
		}
	case "get":
		if t := w.get(op.T); t != nil {
			w.opGet(t, op)
		}
	case "iter":
		if t := w.get(op.T); t != nil {
			w.pre(t)
			w.checkContent(t, "iter")
			w.post(t, nil, op)
		}
	case "setver":
		if t := w.get(op.T); t != nil && t.parent == nil && op.N > 0 {
			t.mpt.SetVersion(util.Sequence(op.N))
			if t.ver != op.N {
				t.multiVer = true
			}
			t.ver = op.N
		}
	case "child":
		if t := w.get(op.T); t != nil {
			w.opChild(t)
		}
	case "merge":
		if t := w.get(op.T); t != nil && t.parent != nil && t.parent.open {
			w.retryMerge = op.N == 1
			w.opMerge(t)
		}
	case "discard":
		if t := w.get(op.T); t != nil && t.parent != nil {
			w.pre(t)
			w.closeInst(t)
			w.post(t, nil, op)
		}
	case "lose":
		if t := w.get(op.T); t != nil {
			w.opLose(t, op)
		}
	case "scribble":
		w.opScribble(op)
	}
}

func (w *world) closeInst(t *inst) {
	t.open = false
	for _, c := range w.tries {
		if c.parent == t && c.open {
			w.closeInst(c)
		}
	}
}

func (w *world) opChild(p *inst) {
	mem := util.NewMemoryNodeDB()
	c := &inst{id: len(w.tries), parent: p, ver: p.ver, open: true, mem: mem, multiVer: p.multiVer}
	c.db = util.NewLevelNodeDB(mem, p.db, false)
	c.model = map[string]string{}
	for k, v := range p.model {
		c.model[k] = v
	}
	c.degraded = p.degraded
	c.stale = p.stale
	if w.s.Cache == "shared" {
		c.tc = w.newCache()
	} else {
		c.tc = w.newCache()
	}
	root := p.mpt.GetRoot()
	c.parentRootAtOpen = append([]byte{}, root...)
	c.mpt = util.NewMerklePatriciaTrie(c.db, util.Sequence(c.ver), root, c.tc)
	w.tries = append(w.tries, c)
	w.stats.Inc("probe.child-opened")
}

func (w *world) markStale(parent *inst) {
	for _, c := range w.tries {
		if c.parent == parent && c.open {
			c.stale = true
			w.markStale(c) // and everything opened below it
		}
	}
}

// ---------------------------------------------------------------- operations

func (w *world) opInsert(t *inst, op Op) {
	w.pre(t)
	p, v := op.P, op.V
	if op.K == "insempty" {
		v = []byte{}
	}
	if op.K == "insbig" {
		v = bytes.Repeat([]byte{'x'}, util.MPTMaxAllowableNodeSize+1)
	}
	if op.K == "insmax" {
		// the largest values Insert accepts: op.N bytes below the limit; the tag in front keeps writes unique
		w.stats.Inc("probe.insert-near-max-size")
		v = append(append([]byte{}, op.V...), bytes.Repeat([]byte{'y'}, util.MPTMaxAllowableNodeSize-int(op.N)-len(op.V))...)
	}
	before := t.mpt.GetRoot()
	rel := pathRel(t.model, p)
	_, present := t.model[p]
	var root util.Key
	var err error
	w.faultMark()
	arg := val(append([]byte{}, v...))
	pbuf := util.Path(p)
	var preSnap snap
	muts0, fired0 := 0, 0
	if w.fdb != nil && t.id == 0 {
		preSnap, muts0, fired0 = w.snapshot(t, false), w.fdb.muts, w.fdb.fired
	}
	if w.guard(fmt.Sprintf("Insert(%q)", p), func() { root, err = t.mpt.Insert(pbuf, arg) }) {
		return
	}
	if w.s.Scribble && w.s.ScribblePaths && len(pbuf) > 0 {
		// so does the path slice: the caller builds its next key in the same buffer
		for i := range pbuf {
			pbuf[i] = "0123456789abcdef"[(int(pbuf[i])+7+i)%16]
		}
		w.stats.Inc("fault.scribble-on-inserted-path")
	}
	if w.s.Scribble && len(arg.Buffer) > 0 && len(arg.Buffer) < 1<<20 {
		// the value object passed to Insert stays the caller's: it refills it for its next write
		for i := range arg.Buffer {
			arg.Buffer[i] ^= 0x33
		}
		w.stats.Inc("fault.scribble-on-inserted-value")
	}
	if err != nil && w.fdb != nil && t.id == 0 && !t.degraded && w.fdb.fired == fired0+1 && w.fdb.lastKind == "dbput" && w.fdb.muts == muts0 && len(v) > 0 {
		// the very first store write of this Insert was refused: nothing has been written or deleted yet, and the
		// trie must not remember anything of the attempt (root, pending changes, dead list as before)
		w.stats.Inc("probe.insert-refused-at-its-first-store-write")
		after := w.snapshot(t, false)
		if preSnap.root != after.root || preSnap.changes != after.changes || preSnap.deletes != after.deletes {
			w.fail("c01.failed-insert", "trace-of-an-insert-refused-at-its-first-write", "Insert(%q) failed at its first store write (nothing was written), yet the trie's root / pending changes / dead list differ from before", p)
			return
		}
	}
	if err != nil && (w.faultHit() || t.degraded) {
		t.degraded = true
		w.stats.Inc("fault.any")
		w.stats.Inc("fault.failed-op")
		w.post(t, nil, op)
		return
	}
	after := t.mpt.GetRoot()
	switch {
	case len(v) == 0:
		w.stats.Inc("probe.insert-empty")
		w.expectDelete(t, p, present, rel, before, after, err, "insert-empty")
	case len(v) > util.MPTMaxAllowableNodeSize:
		w.stats.Inc("probe.insert-oversize")
		if err == nil {
			w.fail("c01.insert-return", "oversize-accepted", "over-size value accepted at %q", p)
		} else if !bytes.Equal(before, after) {
			w.fail("c01.insert-return", "oversize-changed-root", "rejected over-size insert changed the root")
		}
	default:
		w.stats.Inc("mut")
		if err != nil && t.stale {
			// an operation of a stale child (its parent chain dropped nodes it still references) failed half-way:
			// it returned an error, but nodes it had already replaced are gone from its own level. If its merge is
			// later accepted because the parent came back to the very same root (ABA), the parent inherits that.
			t.degraded = true
			w.stats.Inc("relaxed.stale-child-op-failed")
		}
		if err != nil {
			if w.has("C01") || w.has("C02") {
				w.fail("c01.insert-return", "insert:"+rel+":ret="+errClass(err), "Insert(%q) returned %v", p, err)
			}
		} else {
			t.model[p] = string(v)
			if !bytes.Equal(root, after) {
				w.fail("c01.insert-return", "returned-root", "Insert returned root %x but GetRoot is %x", root, after)
			}
			if present {
				w.stats.Inc("probe.overwrite")
			}
			if rel != "present" && rel != "absent-disjoint" {
				w.stats.Inc("probe.insert-" + rel)
				w.stats.Inc("probe.any")
			}
		}
		if !bytes.Equal(before, after) {
			w.markStale(t) // t's own children are now stale
		}
	}
	w.post(t, &op, op)
}

func (w *world) expectDelete(t *inst, p string, present bool, rel string, before, after util.Key, err error, how string) {
	if present {
		w.stats.Inc("mut")
		w.stats.Inc("probe.delete-present")
		w.stats.Inc("probe.any")
		if err != nil && t.stale {
			t.degraded = true // see opInsert: a stale child's failed operation leaves it half-applied
			w.stats.Inc("relaxed.stale-child-op-failed")
		}
		if err != nil {
			if w.has("C01") || w.has("C02") {
				w.fail("c01.delete-return", how+":present:ret="+errClass(err), "%s of present path %q returned %v", how, p, err)
			}
			return
		}
		delete(t.model, p)
		if !bytes.Equal(before, after) {
			w.markStale(t)
		}
		return
	}
	w.stats.Inc("probe.delete-" + rel)
	if rel != "absent-disjoint" {
		w.stats.Inc("probe.any")
	}
	if !(w.has("C01") || w.has("C02")) {
		// other properties: follow what the code did only as far as the model allows
		return
	}
	if err != util.ErrValueNotPresent {
		w.fail("c01.delete-return", how+":"+rel+":ret="+errClass(err), "%s of absent path %q (%s) returned %v, want 'value not present'", how, p, rel, err)
		return
	}
	if !bytes.Equal(before, after) {
		w.fail("c01.delete-return", how+":"+rel+":root-changed", "%s of absent path %q changed the root", how, p)
	}
}

func (w *world) opDelete(t *inst, op Op) {
	w.pre(t)
	p := op.P
	before := t.mpt.GetRoot()
	rel := pathRel(t.model, p)
	_, present := t.model[p]
	var err error
	w.faultMark()
	dbuf := util.Path(p)
	if w.guard(fmt.Sprintf("Delete(%q) [%s]", p, rel), func() { _, err = t.mpt.Delete(dbuf) }) {
		if w.v != nil && w.v.Oracle == "panic" {
			w.v.Class = "delete:" + rel + ":" + w.v.Class
		}
		return
	}
	if w.s.Scribble && w.s.ScribblePaths {
		for i := range dbuf {
			dbuf[i] = "0123456789abcdef"[(int(dbuf[i])+5+i)%16]
		}
	}
	if err != nil && (w.faultHit() || t.degraded) {
		t.degraded = true
		w.stats.Inc("fault.any")
		w.stats.Inc("fault.failed-op")
		w.post(t, nil, op)
		return
	}
	after := t.mpt.GetRoot()
	w.expectDelete(t, p, present, rel, before, after, err, "delete")
	w.post(t, &op, op)
}

func (w *world) opGet(t *inst, op Op) {
	w.pre(t)
	w.lookup(t, op.P, "get")
	w.post(t, nil, op)
}

// lookup checks one GetNodeValueRaw (and GetNodeValue) against the model.
func (w *world) lookup(t *inst, p string, how string) {
	want, present := t.model[p]
	var got []byte
	var err error
	w.faultMark()
	m := t.mpt
	if how != "get" {
		m = w.observer(t)
	}
	if w.guard(fmt.Sprintf("GetNodeValueRaw(%q)", p), func() { got, err = m.GetNodeValueRaw(util.Path(p)) }) {
		return
	}
	if w.s.Scribble && err == nil && len(got) > 0 {
		// a caller that edits the bytes a lookup handed out (they are a copy today) must not change the trie:
		// done after this lookup has been judged, every later observation still has to equal the model
		defer func() {
			for i := range got {
				got[i] ^= 0x5a
			}
			w.stats.Inc("fault.scribble-on-returned-value")
		}()
	}
	relaxed := t.degraded || w.faultHit()
	if w.faultHit() {
		w.stats.Inc("fault.any")
	}
	if !(w.has("C01") || w.has("C02") || w.has("C03")) {
		return
	}
	oracle := "c01.lookup"
	if w.has("C03") {
		oracle = "c03.view"
	}
	if present {
		switch {
		case err == nil && string(got) == want:
		case err == nil:
			w.fail(oracle, how+":wrong-value", "lookup %q returned %q, want %q", p, got, want)
		case relaxed && err != util.ErrValueNotPresent:
			w.stats.Inc("relaxed.lookup-error")
		case w.has("C03") && t.stale && err == util.ErrNodeNotFound:
			w.stats.Inc("relaxed.stale-node-not-found")
		default:
			w.fail(oracle, how+":present:ret="+errClass(err), "lookup of present path %q returned %v", p, err)
		}
		return
	}
	switch {
	case err == util.ErrValueNotPresent:
	case err == nil:
		w.fail(oracle, how+":"+pathRel(t.model, p)+":phantom", "lookup of absent path %q returned %q", p, got)
	case relaxed:
		w.stats.Inc("relaxed.lookup-error")
	case w.has("C03") && t.stale && err == util.ErrNodeNotFound:
		w.stats.Inc("relaxed.stale-node-not-found")
	default:
		w.fail(oracle, how+":"+pathRel(t.model, p)+":ret="+errClass(err), "lookup of absent path %q returned %v", p, err)
	}
	if err == nil && w.v == nil {
		var sv util.SecureSerializableValue
		if e2 := m.GetNodeValue(util.Path(p), &sv); e2 != nil || !bytes.Equal(sv.Buffer, got) {
			w.fail(oracle, "getnodevalue-disagrees", "GetNodeValue(%q) = %q,%v but raw = %q", p, sv.Buffer, e2, got)
		}
	}
}

// checkContent: every model key reads back, absent neighbours are absent, Iterate yields exactly the model.
func (w *world) checkContent(t *inst, how string) {
	if w.v != nil {
		return
	}
	for _, k := range sim.SortedKeys(t.model) {
		w.lookup(t, k, how)
		if w.v != nil {
			return
		}
	}
	for _, p := range absentProbes(t.model) {
		w.lookup(t, p, how)
		if w.v != nil {
			return
		}
	}
	var got map[string]string
	var list []kv
	var err error
	w.faultMark()
	mode := 0
	if w.s.IterAll {
		w.iterN++
		mode = w.iterN % 3
	}
	if w.guard("Iterate", func() { got, list, err = contentVia(w.observer(t), mode) }) {
		return
	}
	relaxed := t.degraded || w.faultHit() || (w.has("C03") && t.stale)
	oracle := "c01.iterate"
	if w.has("C03") {
		oracle = "c03.view"
	}
	if err != nil {
		if !relaxed {
			w.fail(oracle, "iterate:ret="+errClass(err), "Iterate returned %v", err)
			return
		}
		w.stats.Inc("relaxed.iterate-error")
		// under relaxation whatever was yielded must still be right
		for _, e := range list {
			if mv, ok := t.model[e.p]; !ok || mv != e.v {
				w.fail(oracle, "iterate:wrong-pair", "Iterate (failing with %v) yielded %q=%q not in the model", err, e.p, e.v)
				return
			}
		}
		return
	}
	if len(list) != len(got) {
		w.fail(oracle, "iterate:duplicate", "Iterate yielded %d pairs for %d distinct paths", len(list), len(got))
		return
	}
	if d := diffMaps(t.model, got); d != "" {
		w.fail(oracle, "iterate:content", "Iterate differs from the model: %s", d)
	}
}

// ---------------------------------------------------------------- merge

func (w *world) opMerge(c *inst) {
	p := c.parent
	w.pre(c)
	parentRoot := p.mpt.GetRoot()
	childRoot := c.mpt.GetRoot()
	var childView map[string]string
	var childViewErr error
	if w.has("C03") {
		childView, _, childViewErr = content(w.observer(c))
	}
	var err error
	w.faultMark()
	w.armFaults(false)
	panicked := w.guard("MergeMPTChanges", func() { err = p.mpt.MergeMPTChanges(c.mpt) })
	w.armFaults(true)
	if panicked {
		return
	}
	if err != nil && (w.faultHit() || p.degraded || c.degraded) {
		p.degraded = true
		for _, o := range w.tries { // everything that reads through the parent's store is affected by a half-applied merge
			for a := o.parent; a != nil; a = a.parent {
				if a == p {
					o.degraded = true
				}
			}
		}
		w.closeInst(c)
		w.stats.Inc("fault.any")
		return
	}
	sameAsOpen := bytes.Equal(parentRoot, c.parentRootAtOpen)
	switch {
	case sameAsOpen || bytes.Equal(parentRoot, childRoot):
		w.stats.Inc("probe.merge-ok")
		w.stats.Inc("probe.any")
		if err != nil {
			w.fail("c03.merge", "fresh-merge-rejected", "merge of an up-to-date child returned %v", err)
			return
		}
		if c.degraded {
			p.degraded = true
		}
		if sameAsOpen {
			p.model = map[string]string{}
			for k, v := range c.model {
				p.model[k] = v
			}
		}
		if w.s.Cache == "shared" {
			c.tc.Commit()
		}
		if !bytes.Equal(parentRoot, childRoot) {
			w.markStale(p)
			w.stats.Inc("mut")
			if !w.has("C03") {
				for _, o := range w.tries {
					if o.parent == p && o.open && o != c {
						w.closeInst(o) // stale siblings are abandoned outside C03
					}
				}
			}
		}
		if w.has("C03") && w.v == nil {
			if !bytes.Equal(p.mpt.GetRoot(), childRoot) {
				w.fail("c03.merge", "merged-root", "after merge parent root %x != child root %x", p.mpt.GetRoot(), childRoot)
			}
			pv, _, perr := content(w.observer(p))
			if c.stale && (childViewErr != nil || perr != nil) {
				// a stale child (its parent chain moved on) may be unreadable; only its rejection/acceptance is checked
				w.stats.Inc("relaxed.stale-merge-view")
			} else if perr != nil {
				w.fail("c03.merge", "merged-content-unreadable", "parent unreadable after merge: %v", perr)
			} else if d := diffMaps(childView, pv); d != "" {
				w.fail("c03.merge", "merged-content", "parent content differs from the child's view after merge: %s", d)
			}
		}
		c.stale = false
		w.closeInst(c)
		w.postMerge(c, p, true)
	default:
		w.stats.Inc("probe.merge-stale")
		w.stats.Inc("probe.any")
		if err == nil {
			w.fail("c03.merge", "stale-merge-accepted", "merge of a stale child (parent moved from %x to %x) was accepted", c.parentRootAtOpen, parentRoot)
			return
		}
		if w.retryMerge {
			// the caller tries again at once (a retry-on-error wrapper): the parent has still moved on
			var err2 error
			if w.guard("MergeMPTChanges (retry)", func() { err2 = p.mpt.MergeMPTChanges(c.mpt) }) {
				return
			}
			w.stats.Inc("probe.rejected-merge-retried")
			if err2 == nil {
				w.fail("c03.merge", "stale-merge-accepted-on-retry", "the merge of a stale child was rejected (%v) and accepted when it was tried again", err)
				return
			}
		}
		w.closeInst(c)
		w.postMerge(c, p, false)
	}
}

// ---------------------------------------------------------------- per-property hooks

type snap struct {
	root    string
	content string
	cerr    string
	changes string
	deletes string
	own     string
}

func (w *world) snapshot(t *inst, withContent bool) snap {
	var s snap
	s.root = string(t.mpt.GetRoot())
	if withContent {
		c, _, err := content(w.observer(t))
		s.content = mapDigest(c) + fmt.Sprint(len(c))
		if err != nil {
			s.cerr = err.Error()
		}
	}
	_, changes, deletes, start := t.mpt.GetChanges()
	var cs []string
	for _, ch := range changes {
		o := ""
		if ch.Old != nil {
			o = ch.Old.GetHash()
		}
		cs = append(cs, o+">"+ch.New.GetHash()+"="+string(ch.New.Encode()))
	}
	sort.Strings(cs)
	s.changes = sim.Digest(strings.Join(cs, "|"), string(start))
	var ds []string
	for _, d := range deletes {
		ds = append(ds, d.GetHash())
	}
	sort.Strings(ds)
	s.deletes = sim.Digest(strings.Join(ds, "|"))
	if t.mem != nil {
		var ns []string
		_ = t.mem.Iterate(context.Background(), func(ctx context.Context, key util.Key, node util.Node) error {
			ns = append(ns, string(key)+"="+string(node.Encode()))
			return nil
		})
		sort.Strings(ns)
		s.own = sim.Digest(strings.Join(ns, "|"))
	}
	return s
}

var snaps map[*inst]snap

// pre takes the C03 snapshot of every open trie before the actor acts.
func (w *world) pre(actor *inst) {
	if !w.has("C03") {
		return
	}
	snaps = map[*inst]snap{}
	for _, t := range w.tries {
		if t.open {
			snaps[t] = w.snapshot(t, true)
		}
	}
}

func (w *world) compareSnap(t *inst, before snap, what string, contentToo bool) {
	after := w.snapshot(t, contentToo)
	var d []string
	if before.root != after.root {
		d = append(d, "root")
	}
	if contentToo && (before.content != after.content || before.cerr != after.cerr) {
		d = append(d, "content")
	}
	if before.changes != after.changes {
		d = append(d, "pending-changes")
	}
	if before.deletes != after.deletes {
		d = append(d, "dead-list")
	}
	if before.own != after.own {
		d = append(d, "own-level-nodes")
	}
	if len(d) > 0 {
		w.fail("c03.isolation", what+":"+strings.Join(d, "+"), "trie %d changed (%s) although it was not the actor (%s)", t.id, strings.Join(d, ","), what)
	}
}

// post runs the oracles after an operation of actor.
func (w *world) post(actor *inst, mut *Op, op Op) {
	if w.v != nil {
		return
	}
	if w.has("C01") {
		w.checkContent(actor, op.K)
	}
	if w.has("C02") && actor.open {
		w.checkRoot(actor)
	}
	if w.has("C03") {
		for _, t := range w.tries {
			if t == actor || !t.open {
				continue
			}
			if b, ok := snaps[t]; ok {
				w.compareSnap(t, b, "op="+op.K, !t.stale)
			}
			if w.v != nil {
				return
			}
		}
		if actor.open {
			w.checkContent(actor, "view")
		}
	}
	if w.has("C14") {
		w.checkStores()
	}
	w.noteState(actor)
}

func (w *world) postMerge(c, p *inst, merged bool) {
	if w.v != nil {
		return
	}
	if w.has("C01") || w.has("C02") {
		w.checkContent(p, "merge")
		if w.has("C02") && w.v == nil {
			w.checkRoot(p)
		}
	}
	if w.has("C03") {
		for _, t := range w.tries {
			if !t.open || t == c {
				continue
			}
			b, ok := snaps[t]
			if !ok {
				continue
			}
			if t == p {
				if !merged {
					w.compareSnap(t, b, "rejected-merge", true)
				}
				continue
			}
			// other tries: own state untouched; content reads of siblings of a
			// merged child may now fail (stale) but that is checked by lookups.
			isSibling := t.parent == p
			w.compareSnap(t, b, "merge-bystander", !(merged && isSibling) && !t.stale)
			if w.v != nil {
				return
			}
		}
		if w.v == nil {
			w.checkContent(p, "view")
		}
	}
	if w.has("C14") {
		w.checkStores()
	}
	w.noteState(p)
}

func (w *world) noteState(t *inst) {
	if t == nil || !t.open {
		return
	}
	m := map[string][]byte{}
	for k := range t.model {
		m[k] = nil
	}
	w.states[sim.Digest(refmpt.Shape(refmpt.Build(m, 0)), w.s.Store)] = true
}

// ---------------------------------------------------------------- C02

var globalRoots = map[string]string{}

func (w *world) checkRoot(t *inst) {
	if t.multiVer || t.degraded {
		return
	}
	m := map[string][]byte{}
	for k, v := range t.model {
		m[k] = []byte(v)
	}
	want := refmpt.Root(m, t.ver)
	got := t.mpt.GetRoot()
	if len(want) == 0 && len(got) == 0 {
		return
	}
	if !bytes.Equal(want, got) {
		shape := refmpt.Shape(refmpt.Build(m, t.ver))
		w.fail("c02.root", "root-mismatch", "GetRoot %x != independent root %x for content %v (canonical shape %s)", got, want, sim.SortedKeys(t.model), shape)
		return
	}
	d := mapDigest(t.model) + fmt.Sprint(t.ver)
	if prev, ok := globalRoots[string(got)]; ok && prev != d {
		w.fail("c02.injective", "root-collision", "two different contents share root %x", got)
	}
	if len(globalRoots) < 2000000 {
		globalRoots[string(got)] = d
	}
}

// final runs end-of-run oracles.
func (w *world) final() {
	if w.has("C02") {
		t := w.tries[0]
		if !t.multiVer && !t.degraded && len(t.model) > 0 {
			// history independence, directly: rebuild the same content in
			// another order with delete/re-insert noise in a fresh trie.
			f := util.NewMerklePatriciaTrie(util.NewMemoryNodeDB(), util.Sequence(t.ver), nil, w.newCache())
			ks := sim.SortedKeys(t.model)
			r := sim.NewRand(uint64(len(ks))*7919 + uint64(w.s.Ver))
			perm := r.Perm(len(ks))
			w.guard("rebuild", func() {
				for n, i := range perm {
					k := ks[i]
					if n%3 == 0 {
						f.Insert(util.Path(k), val([]byte("tmp")))
						f.Delete(util.Path(k))
					}
					f.Insert(util.Path(k), val([]byte(t.model[k])))
				}
			})
			if w.v == nil && !bytes.Equal(f.GetRoot(), t.mpt.GetRoot()) {
				w.fail("c02.history", "history-dependent-root", "same content built in another order has root %x, history root %x", f.GetRoot(), t.mpt.GetRoot())
			}
		}
	}
	if w.has("C14") {
		w.checkStores()
	}
}
