package mptsim

import (
	"bytes"
	"context"
	"fmt"
	"io"
	"sort"

	"github.com/0chain/common/core/util"

	"verif/harness/refmpt"
	"verif/harness/sim"
)

// ---------------------------------------------------------------- C14: stored nodes

func nodeKind(n util.Node) string {
	switch x := n.(type) {
	case *util.LeafNode:
		if len(x.Path) == 0 {
			return "leaf0"
		}
		return "leaf"
	case *util.FullNode:
		k := fmt.Sprintf("full%d", x.GetNumChildren())
		if x.HasValue() {
			k += "v"
		}
		return k
	case *util.ExtensionNode:
		return "ext"
	}
	return "other"
}

// checkNode: key == own hash, encode/decode round trip.
func (w *world) checkNode(where string, key util.Key, n util.Node) {
	if w.v != nil {
		return
	}
	w.stats.Inc("c14.nodes")
	w.stats.Inc("c14.kind." + nodeKind(n))
	w.guard("C14 node check", func() {
		hb := n.GetHashBytes()
		if !bytes.Equal(hb, key) {
			w.fail("c14.key", "key-not-hash:"+nodeKind(n), "%s: node stored under %x hashes to %x (%s)", where, key, hb, nodeKind(n))
			return
		}
		enc := n.Encode()
		d, err := util.CreateNode(bytes.NewReader(enc))
		if err != nil {
			w.fail("c14.roundtrip", "decode-error:"+nodeKind(n), "%s: CreateNode(Encode(n)) failed: %v", where, err)
			return
		}
		if !bytes.Equal(d.Encode(), enc) {
			w.fail("c14.roundtrip", "reencode-differs:"+nodeKind(n), "%s: re-encoding differs for node %x", where, key)
			return
		}
		if !bytes.Equal(d.GetHashBytes(), hb) {
			w.fail("c14.roundtrip", "rehash-differs:"+nodeKind(n), "%s: decoded node hashes to %x, original %x", where, d.GetHashBytes(), hb)
			return
		}
		// the decoder takes an io.Reader: one that hands the bytes out a few at a time (a network stream, a
		// buffered reader at a boundary) must give the same node
		if len(enc) < 4096 {
			for _, chunk := range []int{1, 7} {
				d2, err := util.CreateNode(&chunkReader{b: enc, n: chunk})
				if err != nil || !bytes.Equal(d2.Encode(), enc) {
					w.fail("c14.roundtrip", "short-reads-differ:"+nodeKind(n), "%s: decoding node %x from a reader that returns %d byte(s) per Read gives %v / another node", where, key, chunk, err)
					return
				}
			}
		}
		// statecache copy must be equivalent as well
		c, ok := n.Clone().(util.Node)
		if !ok || !bytes.Equal(c.GetHashBytes(), hb) {
			w.fail("c14.roundtrip", "clone-differs:"+nodeKind(n), "%s: Clone() of node %x hashes differently", where, key)
		}
	})
}

// chunkReader returns at most n bytes per Read (legal for an io.Reader).
type chunkReader struct {
	b []byte
	n int
}

func (c *chunkReader) Read(p []byte) (int, error) {
	if len(c.b) == 0 {
		return 0, io.EOF
	}
	k := c.n
	if k > len(p) {
		k = len(p)
	}
	if k > len(c.b) {
		k = len(c.b)
	}
	copy(p, c.b[:k])
	c.b = c.b[k:]
	return k, nil
}

func (w *world) checkDB(where string, db util.NodeDB) {
	if db == nil || w.v != nil {
		return
	}
	type kn struct {
		k util.Key
		n util.Node
	}
	var all []kn
	w.guard("NodeDB.Iterate", func() {
		_ = db.Iterate(context.Background(), func(ctx context.Context, key util.Key, node util.Node) error {
			all = append(all, kn{append(util.Key{}, key...), node})
			return nil
		})
	})
	sort.Slice(all, func(a, b int) bool { return bytes.Compare(all[a].k, all[b].k) < 0 })
	for _, e := range all {
		w.checkNode(where, e.k, e.n)
	}
}

func (w *world) checkStores() {
	for _, t := range w.tries {
		if t.mem != nil && t.open {
			w.checkDB(fmt.Sprintf("memory level of trie %d", t.id), t.mem)
		}
	}
	if w.disk != nil && w.v == nil {
		w.checkDisk()
	}
	for _, t := range w.tries {
		if t.open && !t.stale && w.v == nil {
			w.recompute(t)
		}
	}
}

func (w *world) checkDisk() {
	for _, k := range w.disk.Keys(0) {
		raw, _ := w.disk.RawGet(0, k)
		w.stats.Inc("c14.raw")
		var n util.Node
		var err error
		if w.guard("CreateNode(stored bytes)", func() { n, err = util.CreateNode(bytes.NewReader(raw)) }) {
			return
		}
		if err != nil {
			w.fail("c14.roundtrip", "stored-bytes-undecodable", "persistent store: value under %x does not decode: %v", k, err)
			return
		}
		w.checkNode("persistent store", k, n)
		if w.v != nil {
			return
		}
		if !bytes.Equal(n.Encode(), raw) {
			w.fail("c14.roundtrip", "stored-bytes-reencode", "persistent store: value under %x re-encodes differently", k)
			return
		}
	}
}

// recompute walks the trie from its root through its own store, re-deriving
// every node's hash from the node read back and following child links.
func (w *world) recompute(t *inst) {
	root := t.mpt.GetRoot()
	if len(root) == 0 {
		return
	}
	var walk func(key util.Key, depth int)
	walk = func(key util.Key, depth int) {
		if w.v != nil {
			return
		}
		n, err := t.db.GetNode(key)
		if err != nil {
			if t.degraded {
				return
			}
			w.fail("c14.readback", "reachable-node-unreadable", "trie %d: node %x reachable from root %x cannot be read: %v", t.id, key, root, err)
			return
		}
		if hb := n.GetHashBytes(); !bytes.Equal(hb, key) {
			w.fail("c14.readback", "readback-hash:"+nodeKind(n), "trie %d: node read under %x re-computes to %x", t.id, key, hb)
			return
		}
		switch x := n.(type) {
		case *util.FullNode:
			for _, c := range x.Children {
				if c != nil {
					walk(c, depth+1)
				}
			}
		case *util.ExtensionNode:
			walk(x.NodeKey, depth+1)
		}
	}
	w.guard("recompute walk", func() { walk(root, 0) })
}

// ---------------------------------------------------------------- C17: node loss and repair

type nodeRef struct {
	key   util.Key
	node  util.Node
	depth int
	par   int // index of parent in list (-1 root)
	paths []string
}

// reach lists the nodes reachable from root through db (pre-order), with the
// model paths that pass through each node.
func reach(db util.NodeDB, root util.Key) []nodeRef {
	var out []nodeRef
	var walk func(key util.Key, par, depth int)
	walk = func(key util.Key, par, depth int) {
		n, err := db.GetNode(key)
		if err != nil {
			return
		}
		out = append(out, nodeRef{key: append(util.Key{}, key...), node: n, depth: depth, par: par})
		me := len(out) - 1
		switch x := n.(type) {
		case *util.FullNode:
			for _, c := range x.Children {
				if c != nil {
					walk(c, me, depth+1)
				}
			}
		case *util.ExtensionNode:
			walk(x.NodeKey, me, depth+1)
		}
	}
	if len(root) > 0 {
		walk(root, -1, 0)
	}
	return out
}

// delFrom removes a node from whichever level of the trie's store holds it.
func (w *world) delFrom(t *inst, key util.Key) {
	switch db := t.db.(type) {
	case *util.MemoryNodeDB:
		db.DeleteNode(key)
	case *util.PNodeDB:
		w.disk.RawDelete(0, key)
	case *util.LevelNodeDB:
		if _, err := db.GetCurrent().GetNode(key); err == nil {
			db.GetCurrent().DeleteNode(key)
		} else if p, ok := db.GetPrev().(*util.PNodeDB); ok && p != nil {
			w.disk.RawDelete(0, key)
		} else {
			db.GetPrev().DeleteNode(key)
		}
	}
}

// opLose: remove the chosen reachable non-root nodes (node-loss fault), then
// check detection, then repair from a donor and check the result.
func (w *world) opLose(t *inst, op Op) {
	if t.parent != nil {
		return
	}
	root := t.mpt.GetRoot()
	nodes := reach(t.db, root)
	if len(nodes) < 2 {
		return
	}
	// full content before the fault (observed, not the abstract model)
	before, _, err := content(t.mpt)
	if err != nil {
		return
	}
	lost := map[int]bool{}
	for _, i := range op.S {
		if i == -100000 { // every node below the root
			for j := 1; j < len(nodes); j++ {
				lost[j] = true
			}
			w.stats.Inc("probe.whole-state-below-the-root-lost")
			continue
		}
		sub := i < 0
		if sub {
			i = -i - 1
		}
		idx := 1 + i%(len(nodes)-1)
		lost[idx] = true
		if sub { // whole subtree: pre-order descendants are contiguous
			for j := idx + 1; j < len(nodes) && nodes[j].depth > nodes[idx].depth; j++ {
				lost[j] = true
			}
			w.stats.Inc("probe.subtree-loss")
		}
	}
	donor := util.NewMemoryNodeDB()
	var lostIdx []int
	for i := range lost {
		lostIdx = append(lostIdx, i)
	}
	sort.Ints(lostIdx)
	// donor insertion order chosen by op.N
	order := sim.NewRand(uint64(op.N) + 1).Perm(len(lostIdx))
	donorSnap := map[string]string{}
	for _, oi := range order {
		nr := nodes[lostIdx[oi]]
		donor.PutNode(nr.key, nr.node)
		donorSnap[string(nr.key)] = string(nr.node.Encode())
	}
	// donor kinds: a memory store holding exactly the lost nodes, or (1 in 4) the state store of a peer that has
	// moved on: a level store whose lower level holds the complete state and over which a trie of the next
	// version has already replaced some nodes (with deletes not propagated the lower level keeps serving them)
	var donorDB util.NodeDB = donor
	if (op.N/11)%4 == 3 && op.P != "norepair" {
		base := util.NewMemoryNodeDB()
		for _, n := range nodes {
			base.PutNode(n.key, n.node.CloneNode())
		}
		ldb := util.NewLevelNodeDB(util.NewMemoryNodeDB(), base, false)
		w.guard("later block on the donor store", func() {
			later := util.NewMerklePatriciaTrie(ldb, util.Sequence(t.ver+1), root, w.newCache())
			keys := sim.SortedKeys(before)
			rr := sim.NewRand(uint64(op.N)*7 + 3)
			for j := 1 + rr.Intn(3); j > 0 && len(keys) > 0; j-- {
				k := keys[rr.Intn(len(keys))]
				if rr.Chance(1, 3) {
					later.Delete(util.Path(k))
				} else {
					later.Insert(util.Path(k), val([]byte("later")))
				}
			}
		})
		if w.v != nil {
			return
		}
		donorDB = ldb
		donorSnap = map[string]string{}
		_ = donorDB.Iterate(context.Background(), func(ctx context.Context, key util.Key, node util.Node) error {
			donorSnap[string(key)] = string(node.Encode())
			return nil
		})
		w.stats.Inc("probe.donor-is-a-later-blocks-level-store")
	}
	for _, i := range lostIdx {
		w.delFrom(t, nodes[i].key)
		w.stats.Inc("fault.node-lost")
	}
	w.stats.Inc("fault.any")
	w.stats.Add("mut", 2)
	if op.P == "norepair" {
		// C16: the run continues on the lossy store, with a fresh trie object (an
		// empty cache: a warm cache would still serve the removed nodes)
		t.tc = w.newCache()
		t.mpt = util.NewMerklePatriciaTrie(t.db, util.Sequence(t.ver), root, t.tc)
		return
	}
	if len(lostIdx) > 1 {
		w.stats.Inc("probe.multi-node-loss")
	}
	// frontier = lost nodes whose ancestors are all present
	frontier := map[string]bool{}
	under := make([]bool, len(nodes)) // node is lost or below a lost node
	for i, n := range nodes {
		if n.par >= 0 && under[n.par] {
			under[i] = true
			if lost[i] {
				w.stats.Inc("probe.lost-below-lost")
			}
			continue
		}
		if lost[i] {
			under[i] = true
			frontier[string(n.key)] = true
		}
	}
	// which content paths cross a lost node: recompute by walking with a fresh trie would
	// use the code under test; instead derive from the model: a path is affected iff the
	// node sequence on its way contains a frontier node.  Walk nodes with their paths.
	affected := w.pathsUnder(before, nodes, under)

	// a fresh trie object (empty cache) on the same store at the same root
	fresh := util.NewMerklePatriciaTrie(t.db, util.Sequence(t.ver), root, w.newCache())
	var has bool
	var herr error
	if w.guard("HasMissingNodes", func() { has, herr = fresh.HasMissingNodes(context.Background()) }) {
		return
	}
	if herr != nil || !has {
		w.fail("c17.detect", "has-missing-false", "HasMissingNodes = %v,%v after losing %d reachable nodes", has, herr, len(lostIdx))
		return
	}
	var missing []util.Key
	var merr error
	// (asked of another cold trie object: on the one above HasMissingNodes has already cached every present node)
	cold := util.NewMerklePatriciaTrie(t.db, util.Sequence(t.ver), root, w.newCache())
	if w.guard("GetAllMissingNodes", func() { missing, merr = cold.GetAllMissingNodes() }) {
		return
	}
	_ = merr
	got := map[string]bool{}
	for _, k := range missing {
		got[string(k)] = true
	}
	if len(got) != len(frontier) || !subset(got, frontier) {
		w.fail("c17.detect", "missing-set", "GetAllMissingNodes reported %d keys, the absent nodes reachable through present ones are %d", len(got), len(frontier))
		return
	}
	if w.s.Scribble {
		// the key list belongs to the caller (it recycles its request buffers after fetching the nodes)
		for _, k := range missing {
			for i := range k {
				k[i] ^= 0x77
			}
		}
		w.stats.Inc("fault.scribble-on-returned-missing-keys")
	}
	// lookups
	for _, k := range sim.SortedKeys(before) {
		var v []byte
		var e error
		if w.guard("GetNodeValueRaw after loss", func() { v, e = fresh.GetNodeValueRaw(util.Path(k)) }) {
			return
		}
		if affected[k] {
			if e == nil {
				w.fail("c17.lookup", "value-under-absent-node", "lookup of %q below an absent node returned %q", k, v)
				return
			}
			if e == util.ErrValueNotPresent {
				w.fail("c17.lookup", "not-present-under-absent-node", "lookup of %q below an absent node reported 'not present' instead of failing", k)
				return
			}
		} else if e != nil || string(v) != before[k] {
			w.fail("c17.lookup", "unaffected-key-wrong", "lookup of unaffected %q returned %q,%v want %q", k, v, e, before[k])
			return
		}
	}
	if (op.N/13)%6 == 5 && !t.multiVer && len(before) > 0 {
		// An update on the damaged trie: it may fail (it needs an absent node; whatever it leaves behind is outside
		// this check and the run ends here), but if it reports success the trie - once the absent nodes are back - holds
		// exactly the updated content under the canonical root of that content.
		keys := sim.SortedKeys(before)
		victim := keys[int(op.N/7)%len(keys)]
		lt := util.NewMerklePatriciaTrie(t.db, util.Sequence(t.ver), root, w.newCache())
		var r2 util.Key
		var derr error
		if w.guard("Delete on a trie with absent nodes", func() { r2, derr = lt.Delete(util.Path(victim)) }) {
			return
		}
		if derr != nil {
			w.stats.Inc("probe.update-on-a-damaged-trie-failed")
			t.degraded = true
			return
		}
		w.stats.Inc("probe.update-on-a-damaged-trie-succeeded")
		r2 = append(util.Key{}, r2...)
		want := map[string][]byte{}
		for k, v := range before {
			if k != victim {
				want[k] = []byte(v)
			}
		}
		if w.guard("MergeDB after the update", func() { derr = lt.MergeDB(donorDB, r2, nil) }) {
			return
		}
		if derr != nil {
			w.fail("c17.repair", "mergedb-error", "MergeDB returned %v", derr)
			return
		}
		chk := util.NewMerklePatriciaTrie(t.db, util.Sequence(t.ver), r2, w.newCache())
		got, _, gerr := content(chk)
		if gerr != nil {
			w.fail("c17.repair", "unreadable-after-update-and-repair", "a delete on the damaged trie reported success; after the repair the trie cannot be read: %v", gerr)
			return
		}
		wm := map[string]string{}
		for k, v := range want {
			wm[k] = string(v)
		}
		if d := diffMaps(wm, got); d != "" {
			w.fail("c17.repair", "content-after-update-and-repair", "a delete on the damaged trie reported success; after the repair the content differs: %s", d)
			return
		}
		if canon := refmpt.Root(want, t.ver); !bytes.Equal(canon, r2) && !(len(canon) == 0 && len(r2) == 0) {
			w.fail("c17.repair", "root-after-update-on-damaged-trie", "a delete on the damaged trie reported success with root %x; the canonical root of the resulting content is %x", r2, canon)
			return
		}
		t.model = wm
		t.mpt = chk
		return
	}
	// repair at version = t.ver + op.T'... use op.P as "same"/"other" version selector
	rver := t.ver
	if op.P == "otherver" {
		rver = t.ver + 7
		if (op.N/17)%2 == 1 && t.ver > 4 {
			rver = t.ver - 1 - int64(op.N%3) // the repairing trie is OLDER than the nodes it fetches
			w.stats.Inc("probe.repair-at-a-lower-version")
		}
		w.stats.Inc("probe.repair-other-version")
	}
	rep := util.NewMerklePatriciaTrie(t.db, util.Sequence(rver), root, w.newCache())
	if op.N%3 == 2 && rver == t.ver {
		// the trie object that has been reading this state all along does the repair: its cache still holds
		// nodes that the store has lost
		rep = t.mpt
		w.stats.Inc("probe.repair-by-the-warm-trie-object")
	}
	var rerr error
	lvl, isLvl := t.db.(*util.LevelNodeDB)
	if op.N%5 == 3 && isLvl && w.pndb != nil && lvl.GetPrev() == util.NodeDB(w.pndb) {
		// a sync worker writes the fetched nodes straight into the persistent store underneath the level store
		// the trie reads through (whose lookups of those nodes have just failed)
		if w.guard("MergeState into the persistent level", func() { rerr = util.MergeState(context.Background(), donorDB, w.pndb) }) {
			return
		}
		w.stats.Inc("probe.repair-written-into-the-persistent-level-underneath")
	} else if op.N%5 == 4 {
		// the other documented way: copy the donor store into the trie's store as a whole
		if w.guard("MergeState", func() { rerr = util.MergeState(context.Background(), donorDB, t.db) }) {
			return
		}
		w.stats.Inc("probe.repair-by-mergestate")
	} else if w.guard("MergeDB", func() { rerr = rep.MergeDB(donorDB, root, nil) }) {
		return
	}
	if rerr != nil {
		w.fail("c17.repair", "mergedb-error", "MergeDB returned %v", rerr)
		return
	}
	// donor unchanged
	dn := map[string]string{}
	_ = donorDB.Iterate(context.Background(), func(ctx context.Context, key util.Key, node util.Node) error {
		dn[string(key)] = string(node.Encode())
		return nil
	})
	if len(dn) != len(donorSnap) {
		w.fail("c17.donor", "donor-size-changed", "donor store changed size %d -> %d", len(donorSnap), len(dn))
		return
	}
	for k, e := range donorSnap {
		if dn[k] != e {
			w.fail("c17.donor", "donor-node-changed", "donor node %x was modified by MergeDB", k)
			return
		}
	}
	check := util.NewMerklePatriciaTrie(t.db, util.Sequence(rver), root, w.newCache())
	var has2 bool
	w.guard("HasMissingNodes after repair", func() { has2, _ = check.HasMissingNodes(context.Background()) })
	if w.v != nil {
		return
	}
	if has2 {
		w.fail("c17.repair", "still-missing:"+op.P, "trie still has missing nodes after MergeDB from the donor (%s)", op.P)
		return
	}
	if !bytes.Equal(check.GetRoot(), root) || !bytes.Equal(rep.GetRoot(), root) {
		w.fail("c17.repair", "root-changed", "root changed by repair")
		return
	}
	after, _, aerr := content(check)
	if aerr != nil {
		w.fail("c17.repair", "unreadable-after-repair", "Iterate after repair: %v", aerr)
		return
	}
	if d := diffMaps(before, after); d != "" {
		w.fail("c17.repair", "content-after-repair", "content after repair differs: %s", d)
	}
	// The repaired trie goes on being used: one local update, then its collected changes are replayed into
	// another trie opened at the same root with a later version (what merging a synced state upwards does).
	// Whatever happens to the nodes on that way, the donor store must still be what it was.
	if op.N%2 == 0 && w.v == nil {
		w.stats.Inc("probe.repaired-trie-updated-and-merged-on")
		w.guard("continuation after repair", func() {
			// on private upper levels, so that nothing is written to or deleted from the store under test
			rep2 := util.NewMerklePatriciaTrie(util.NewLevelNodeDB(util.NewMemoryNodeDB(), t.db, false), util.Sequence(rver), root, w.newCache())
			if err := rep2.MergeDB(donorDB, root, nil); err != nil {
				return
			}
			if _, err := rep2.Insert(util.Path("0f"), val([]byte("after-repair"))); err != nil {
				return
			}
			x := util.NewMerklePatriciaTrie(util.NewLevelNodeDB(util.NewMemoryNodeDB(), t.db, false), util.Sequence(rver+3), root, w.newCache())
			_ = x.MergeChanges(rep2.GetChanges())
		})
		dn = map[string]string{}
		_ = donorDB.Iterate(context.Background(), func(ctx context.Context, key util.Key, node util.Node) error {
			dn[string(key)] = string(node.Encode())
			if !bytes.Equal(key, node.GetHashBytes()) {
				dn[string(key)] = "stored under a key that is not its hash"
			}
			return nil
		})
		for k, e := range donorSnap {
			if dn[k] != e && w.v == nil {
				w.fail("c17.donor", "donor-node-changed-later", "donor node %x was modified after the repair (the repaired trie was updated and its changes merged into another trie)", k)
			}
		}
		if w.v != nil {
			return
		}
	}
	// Save, notice missing nodes, sync them, save again (all on private stores): a trie over a store S that lacks the
	// lost nodes takes an update and is saved into S, then the missing nodes are merged in at the unchanged root
	// and the trie is saved into S once more; S alone must then hold the complete state.
	if op.N%4 == 1 && w.v == nil {
		S := util.NewMemoryNodeDB()
		for i, n := range nodes {
			if !lost[i] {
				S.PutNode(n.key, n.node.CloneNode())
			}
		}
		var r2 util.Key
		okRun := false
		w.guard("save / sync / save", func() {
			T := util.NewMerklePatriciaTrie(util.NewLevelNodeDB(util.NewMemoryNodeDB(), S, false), util.Sequence(rver), root, w.newCache())
			if _, err := T.Insert(util.Path("0e"), val([]byte("saved-before-sync"))); err != nil {
				return // the update itself ran into an absent node
			}
			r2 = append(util.Key{}, T.GetRoot()...)
			if (op.N/4)%2 == 1 {
				// the first save is refused by the store (I/O error) and given up; the trie object lives on into
				// the next version, takes another update and is saved then
				if err := T.SaveChanges(context.Background(), &refuseBatchDB{NodeDB: S}, false); err == nil {
					panic("a save into a store that refuses the batch reported success")
				}
				T.SetVersion(util.Sequence(rver + 1))
				if _, err := T.Insert(util.Path("0d"), val([]byte("saved-in-the-next-version"))); err != nil {
					return
				}
				r2 = append(util.Key{}, T.GetRoot()...)
				w.stats.Inc("probe.save-given-up-then-saved-in-the-next-version")
			}
			if err := T.SaveChanges(context.Background(), S, false); err != nil {
				return
			}
			if err := T.MergeDB(donorDB, r2, nil); err != nil {
				return
			}
			if err := T.SaveChanges(context.Background(), S, false); err != nil {
				return
			}
			okRun = true
		})
		if okRun && w.v == nil {
			w.stats.Inc("probe.saved-synced-saved-again")
			fr := util.NewMerklePatriciaTrie(S, util.Sequence(rver), r2, w.newCache())
			var miss bool
			w.guard("HasMissingNodes on the saved store", func() { miss, _ = fr.HasMissingNodes(context.Background()) })
			if miss && w.v == nil {
				w.fail("c17.repair", "synced-nodes-not-saved", "a trie was saved, its missing nodes were merged in at the same root and it was saved again into the same store: the store alone still has missing nodes")
			}
		}
		if w.v != nil {
			return
		}
	}
	// the original trie object continues
	t.mpt = check
}

// refuseBatchDB fails every batch write with an I/O error and writes nothing.
type refuseBatchDB struct{ util.NodeDB }

func (r *refuseBatchDB) MultiPutNode(keys []util.Key, nodes []util.Node) error {
	return fmt.Errorf("injected I/O error: batch of %d nodes refused", len(keys))
}

func subset(a, b map[string]bool) bool {
	for k := range a {
		if !b[k] {
			return false
		}
	}
	return true
}

// pathsUnder returns the content paths whose walk crosses a lost node.
func (w *world) pathsUnder(model map[string]string, nodes []nodeRef, under []bool) map[string]bool {
	out := map[string]bool{}
	// recompute each node's path prefix by a second walk
	pre := make([]string, len(nodes))
	for i, n := range nodes {
		if n.par < 0 {
			pre[i] = ""
			continue
		}
		p := nodes[n.par]
		switch x := p.node.(type) {
		case *util.ExtensionNode:
			pre[i] = pre[n.par] + string(x.Path)
		case *util.FullNode:
			for ci, c := range x.Children {
				if c != nil && bytes.Equal(c, n.key) {
					// identical child hashes under one branch are impossible (prefix/position is hashed for leaves; not for others) — take first unused
					pre[i] = pre[n.par] + string("0123456789abcdef"[ci])
					// disambiguate duplicates: prefer the index not yet taken by an earlier sibling
					taken := false
					for j := n.par + 1; j < i; j++ {
						if nodes[j].par == n.par && pre[j] == pre[i] {
							taken = true
						}
					}
					if !taken {
						break
					}
				}
			}
		}
	}
	for i, n := range nodes {
		if !under[i] {
			continue
		}
		for k := range model {
			if len(k) >= len(pre[i]) && k[:len(pre[i])] == pre[i] {
				// the path passes through this node only if the node actually lies on it
				switch x := n.node.(type) {
				case *util.LeafNode:
					if k == pre[i]+string(x.Path) {
						out[k] = true
					}
				case *util.ExtensionNode:
					if len(k) >= len(pre[i])+len(x.Path) && k[len(pre[i]):len(pre[i])+len(x.Path)] == string(x.Path) {
						out[k] = true
					}
				default:
					out[k] = true
				}
			}
		}
	}
	return out
}

func (w *world) opScribble(op Op) {}
