//go:build !race

package sched

const RaceEnabled = false
