//go:build race

package sched

// RaceEnabled reports whether the binary was built with -race.
const RaceEnabled = true
