// Package sched provides the choosers (seeded random walk, PCT, run-until-
// blocked with forced pre-emptions, explicit replay) that drive simrt, and the
// race-report reader for -race builds.
package sched

import (
	"fmt"
	"os"
	"regexp"
	"sort"
	"strings"

	"verif/harness/sim"
	"verif/simrt"
)

// Plan is the schedule part of a script.
type Plan struct {
	Strategy string `json:"strategy"`          // rw | pct | rub | stall | replay
	Seed     uint64 `json:"seed,omitempty"`    // for rw / pct / rub
	Choices  []int  `json:"choices,omitempty"` // replay: index among the enabled tasks at each decision
}

type chooser struct {
	p       Plan
	r       *sim.Rand
	d       int   // decision counter
	last    int   // task run last
	prio    []int // pct
	change  []int // pct: steps at which the running task is demoted
	preempt map[int]bool
	Taken   []int // recorded choices (index among enabled)
	// stall: one task is held at its stallAt-th turn until nobody else can run (a slow / stalled thread)
	victim, stallAt, turns int
}

// NewChooser builds the chooser for a plan with n tasks and an estimated run length.
func NewChooser(p Plan, n int, estSteps int) *chooser {
	c := &chooser{p: p, r: sim.NewRand(p.Seed), last: -1}
	switch p.Strategy {
	case "pct":
		c.prio = c.r.Perm(n)
		for i := range c.prio {
			c.prio[i] += 10
		}
		for k := 1 + c.r.Intn(3); k > 0; k-- {
			c.change = append(c.change, c.r.Intn(estSteps+1))
		}
	case "stall":
		c.victim = c.r.Intn(n)
		c.stallAt = c.r.Intn(40)
	case "rub":
		c.preempt = map[int]bool{}
		for k := 1 + c.r.Intn(4); k > 0; k-- {
			c.preempt[c.r.Intn(estSteps+1)] = true
		}
	}
	return c
}

func indexOf(xs []int, x int) int {
	for i, y := range xs {
		if y == x {
			return i
		}
	}
	return -1
}

func (c *chooser) Choose(step int, enabled []int, sites []int) int {
	k := 0
	switch c.p.Strategy {
	case "replay":
		if c.d < len(c.p.Choices) {
			k = ((c.p.Choices[c.d] % len(enabled)) + len(enabled)) % len(enabled)
		} else if i := indexOf(enabled, c.last); i >= 0 {
			k = i // beyond the recorded schedule: keep running the same task
		}
	case "pct":
		for _, s := range c.change {
			if s == step && c.last >= 0 && c.last < len(c.prio) {
				c.prio[c.last] = -step // demote the running task
			}
		}
		for _, t := range enabled {
			for len(c.prio) <= t { // a task the code under test spawned itself: a priority of its own, drawn when first seen
				c.prio = append(c.prio, 10+c.r.Intn(len(c.prio)+1))
			}
		}
		best := -1 << 62
		for i, t := range enabled {
			if c.prio[t] > best {
				best, k = c.prio[t], i
			}
		}
	case "stall":
		k = c.r.Intn(len(enabled))
		if c.turns >= c.stallAt && enabled[k] == c.victim { // the victim waits as long as anybody else can run
			k = (k + 1 + c.r.Intn(len(enabled)-1)) % len(enabled)
		}
		if enabled[k] == c.victim {
			c.turns++
		}
	case "rub":
		if i := indexOf(enabled, c.last); i >= 0 && !c.preempt[step] {
			k = i
		} else {
			k = c.r.Intn(len(enabled))
		}
	default: // rw: uniform random walk
		k = c.r.Intn(len(enabled))
	}
	c.d++
	c.last = enabled[k]
	c.Taken = append(c.Taken, k)
	return k
}

// Pick decides a choice that is not "who runs next" (which case a select looks at first); part of the schedule.
func (c *chooser) Pick(n int) int {
	k := 0
	if c.p.Strategy == "replay" {
		if c.d < len(c.p.Choices) {
			k = ((c.p.Choices[c.d] % n) + n) % n
		}
	} else {
		k = c.r.Intn(n)
	}
	c.d++
	c.Taken = append(c.Taken, k)
	return k
}

// Result of one scheduled execution.
type Result struct {
	Steps, Switches, Decisions int
	Taken                      []int
	Err                        error
	Panics                     []interface{}
	Digest                     string // digest of the task chosen at every decision: the interleaving
	SiteDigest                 string // same including the site of the chosen task (sensitive to map iteration order inside the code under test)
}

// Run executes the tasks under the plan.
func Run(p Plan, estSteps, maxSteps int, fns ...func()) *Result {
	c := NewChooser(p, len(fns), estSteps)
	s, err := simrt.Run(c, maxSteps, fns...)
	r := &Result{Steps: s.Steps, Switches: s.Switches, Decisions: len(s.Trace), Taken: c.Taken, Err: err, Panics: s.Panics}
	var sb, tb strings.Builder
	for i := range s.Trace {
		fmt.Fprintf(&sb, "%d@%d,", s.Trace[i], s.TrSites[i])
		fmt.Fprintf(&tb, "%d,", s.Trace[i])
	}
	if f := os.Getenv("VERIF_TRACE"); f != "" { // debugging aid: the interleaving as task@site, appended to a file
		if fh, err := os.OpenFile(f, os.O_APPEND|os.O_CREATE|os.O_WRONLY, 0644); err == nil {
			fmt.Fprintf(fh, "steps=%d %s\n", s.Steps, sb.String())
			fh.Close()
		}
	}
	r.SiteDigest = sim.Digest(sb.String())
	r.Digest = sim.Digest(tb.String(), fmt.Sprint(s.Steps))
	return r
}

// ---------------------------------------------------------------- race reports

// RaceLog watches the race detector's log file of this process (GORACE=log_path=...).
type RaceLog struct {
	path string
	off  int64
}

// OpenRaceLog returns nil when the binary is not a race build or no log path is configured.
func OpenRaceLog() *RaceLog {
	if !RaceEnabled {
		return nil
	}
	for _, kv := range strings.Fields(os.Getenv("GORACE")) {
		if strings.HasPrefix(kv, "log_path=") {
			return &RaceLog{path: fmt.Sprintf("%s.%d", strings.TrimPrefix(kv, "log_path="), os.Getpid())}
		}
	}
	return nil
}

var frameRe = regexp.MustCompile(`(?m)^  (\S+)\(`)

// New returns the signatures of race reports written since the last call:
// the unordered pair of the innermost functions of the two accesses that
// belong to the module under test.
func (l *RaceLog) New(module string) []string {
	if l == nil {
		return nil
	}
	f, err := os.Open(l.path)
	if err != nil {
		return nil
	}
	defer f.Close()
	st, _ := f.Stat()
	if st.Size() <= l.off {
		return nil
	}
	buf := make([]byte, st.Size()-l.off)
	f.ReadAt(buf, l.off)
	l.off = st.Size()
	var sigs []string
	for _, rep := range strings.Split(string(buf), "WARNING: DATA RACE")[1:] {
		// the first two stacks are the two accesses
		parts := regexp.MustCompile(`(?m)^(?:Previous |)(?:[Rr]ead|[Ww]rite|atomic [rw]\w+) at .*$`).Split(rep, -1)
		var fns []string
		for _, st := range parts[1:] {
			if i := strings.Index(st, "\n\n"); i >= 0 {
				st = st[:i]
			}
			fn := ""
			for _, m := range frameRe.FindAllStringSubmatch(st, -1) {
				if strings.HasPrefix(m[1], module) {
					fn = strings.TrimPrefix(m[1], module+"/")
					break
				}
			}
			fns = append(fns, fn)
			if len(fns) == 2 {
				break
			}
		}
		if len(fns) < 2 || fns[0] == "" || fns[1] == "" {
			continue // a report that does not involve two accesses inside the module under test
		}
		sort.Strings(fns)
		sigs = append(sigs, fns[0]+" <-> "+fns[1])
	}
	return sigs
}
