// Package sim holds what every engine shares: the seeded PRNG, the violation
// and statistics types, the generic delta-debugging shrinker and the worker
// result format.
package sim

import (
	"crypto/sha256"
	"encoding/hex"
	"encoding/json"
	"fmt"
	"sort"
	"time"
)

// ---------------------------------------------------------------- PRNG

// Rand is SplitMix64; sequences are identical under any Go release.
type Rand struct{ s uint64 }

func mix(z uint64) uint64 {
	z = (z ^ (z >> 30)) * 0xbf58476d1ce4e5b9
	z = (z ^ (z >> 27)) * 0x94d049bb133111eb
	return z ^ (z >> 31)
}

func NewRand(seed uint64) *Rand { return &Rand{seed} }

// RunSeed derives the seed of run i of a property from the master seed.
func RunSeed(master uint64, prop string, i uint64) uint64 {
	h := master
	for _, c := range []byte(prop) {
		h = mix(h + 0x9e3779b97f4a7c15 + uint64(c))
	}
	return mix(h + 0x9e3779b97f4a7c15*(i+1))
}

func (r *Rand) U64() uint64 {
	r.s += 0x9e3779b97f4a7c15
	return mix(r.s)
}
func (r *Rand) Intn(n int) int {
	if n <= 0 {
		return 0
	}
	return int(r.U64() % uint64(n))
}

// Range returns a value in [lo, hi].
func (r *Rand) Range(lo, hi int) int { return lo + r.Intn(hi-lo+1) }

// Chance is true with probability num/den.
func (r *Rand) Chance(num, den int) bool { return r.Intn(den) < num }

// Fork returns an independent generator.
func (r *Rand) Fork() *Rand { return &Rand{r.U64()} }

// Weighted picks an index with probability proportional to w[i].
func (r *Rand) Weighted(w []int) int {
	t := 0
	for _, x := range w {
		t += x
	}
	if t == 0 {
		return 0
	}
	k := r.Intn(t)
	for i, x := range w {
		if k < x {
			return i
		}
		k -= x
	}
	return len(w) - 1
}

// Perm returns a permutation of 0..n-1.
func (r *Rand) Perm(n int) []int {
	p := make([]int, n)
	for i := range p {
		p[i] = i
	}
	for i := n - 1; i > 0; i-- {
		j := r.Intn(i + 1)
		p[i], p[j] = p[j], p[i]
	}
	return p
}

// ---------------------------------------------------------------- violations and stats

// Violation describes one failed oracle.
type Violation struct {
	Property string `json:"property"`
	Oracle   string `json:"oracle"` // stable oracle id, e.g. "c01.delete-absent-ok"
	Class    string `json:"class"`  // model-derived class used for known-finding matching
	Detail   string `json:"detail"`
	Step     int    `json:"step"`
}

func (v *Violation) String() string {
	return fmt.Sprintf("%s %s [%s] step=%d: %s", v.Property, v.Oracle, v.Class, v.Step, v.Detail)
}

// Stats is a bag of counters (operations by kind, faults fired, probes).
type Stats map[string]int64

func (s Stats) Inc(k string)          { s[k]++ }
func (s Stats) Add(k string, n int64) { s[k] += n }
func (s Stats) Merge(o Stats) {
	for k, v := range o {
		s[k] += v
	}
}

// Outcome of executing one script.
type Outcome struct {
	V          *Violation
	Stats      Stats
	Digest     string   // digest of the order-insensitive event log (determinism self-test)
	States     []string // distinct-state digests reached
	Nontrivial bool
	Taken      []int // scheduled runs: the choices actually taken (index among enabled tasks per decision)
}

// Log accumulates an event log digest without keeping the text.
type Log struct {
	h    [32]byte
	n    int
	Keep bool
	Text []string
}

func (l *Log) Printf(f string, a ...interface{}) {
	s := fmt.Sprintf(f, a...)
	x := sha256.Sum256(append(l.h[:], s...))
	l.h = x
	l.n++
	if l.Keep {
		l.Text = append(l.Text, s)
	}
}
func (l *Log) Digest() string { return hex.EncodeToString(l.h[:8]) + fmt.Sprintf("/%d", l.n) }

func Digest(parts ...string) string {
	h := sha256.New()
	for _, p := range parts {
		h.Write([]byte(p))
		h.Write([]byte{0})
	}
	return hex.EncodeToString(h.Sum(nil)[:8])
}

func JSONDigest(v interface{}) string {
	b, _ := json.Marshal(v)
	x := sha256.Sum256(b)
	return hex.EncodeToString(x[:8])
}

func SortedKeys(m map[string]string) []string {
	ks := make([]string, 0, len(m))
	for k := range m {
		ks = append(ks, k)
	}
	sort.Strings(ks)
	return ks
}

// ---------------------------------------------------------------- scripts and shrinking

// Script is plain data describing one run; engines implement it.
type Script interface {
	// Len is the number of removable elements (operations, faults, schedule entries).
	Len() int
	// Without returns a copy lacking the elements whose index is in drop (sorted ascending).
	Without(drop []int) Script
	// Simpler returns candidate one-step simplifications (shorter paths, smaller values, ...).
	Simpler() []Script
}

// Exec runs a script and returns its outcome.
type Exec func(Script) *Outcome

// Shrink performs ddmin over the script's elements and then per-element
// simplification, keeping the same property and oracle id.  budget caps the
// number of executions.
// ShrinkWall caps the wall-clock time spent minimising one violation.
var ShrinkWall = 60 * time.Second

func Shrink(s Script, ex Exec, want *Violation, budget int) (Script, *Violation, int) {
	execs := 0
	once := func(c Script) *Violation {
		execs++
		o := ex(c)
		// same violation = same oracle AND same model-derived class, so that shrinking
		// cannot drift from one finding into another (e.g. into a listed known finding)
		if o.V != nil && o.V.Property == want.Property && o.V.Oracle == want.Oracle && o.V.Class == want.Class {
			return o.V
		}
		return nil
	}
	// A candidate is accepted when it fails twice in a row: code under test that is not a function of the
	// script (a Go map's iteration order deciding what it does) would otherwise let the shrinker drift to a
	// script that fails only now and then.
	t0 := time.Now()
	// the wall-clock cap bounds minimisation effort only (long scripts execute slowly); the verdict never
	// depends on it: whatever script is reported is replayed in a fresh process
	spent := func() bool { return execs >= budget || time.Since(t0) > ShrinkWall }
	same := func(c Script) *Violation {
		if spent() {
			return nil
		}
		if once(c) == nil {
			return nil
		}
		return once(c)
	}
	cur, curV := s, want
	// ddmin: chunks of decreasing size
	n := 2
	for cur.Len() >= 2 && !spent() {
		l := cur.Len()
		if n > l {
			n = l
		}
		chunk := (l + n - 1) / n
		reduced := false
		for start := 0; start < l && !spent(); start += chunk {
			end := start + chunk
			if end > l {
				end = l
			}
			drop := make([]int, 0, end-start)
			for i := start; i < end; i++ {
				drop = append(drop, i)
			}
			c := cur.Without(drop)
			if v := same(c); v != nil {
				cur, curV = c, v
				if n > 2 {
					n--
				}
				reduced = true
				break
			}
		}
		if !reduced {
			if n >= l {
				break
			}
			n *= 2
		}
	}
	// single-element removal to 1-minimality
	for again := true; again && !spent(); {
		again = false
		for i := cur.Len() - 1; i >= 0 && !spent(); i-- {
			c := cur.Without([]int{i})
			if v := same(c); v != nil {
				cur, curV = c, v
				again = true
			}
		}
	}
	// simplification passes
	for again := true; again && !spent(); {
		again = false
		for _, c := range cur.Simpler() {
			if spent() {
				break
			}
			if v := same(c); v != nil {
				cur, curV = c, v
				again = true
				break
			}
		}
	}
	if cur != s {
		for i := 0; i < 3; i++ {
			if once(cur) == nil {
				return s, want, execs // the minimised script does not fail reliably: report the original one
			}
		}
	}
	return cur, curV, execs
}

// ---------------------------------------------------------------- worker result

// Replay is the replay-file format.
type Replay struct {
	Property  string          `json:"property"`
	Seed      uint64          `json:"seed"`
	RunIndex  uint64          `json:"run_index"`
	Violation *Violation      `json:"violation"`
	Script    json.RawMessage `json:"script"`
	Note      string          `json:"note,omitempty"`
	Build     string          `json:"build,omitempty"`
}

// FoundViolation is reported by a worker.
type FoundViolation struct {
	RunIndex    uint64     `json:"run_index"`
	RunSeed     uint64     `json:"run_seed"`
	V           *Violation `json:"violation"`
	ReplayPath  string     `json:"replay_path"`
	ShrinkExecs int        `json:"shrink_execs"`
	OrigLen     int        `json:"orig_len"`
	MinLen      int        `json:"min_len"`
	Build       string     `json:"build,omitempty"`
}

// WorkerResult is what a worker process writes.
type WorkerResult struct {
	Property    string `json:"property"`
	Seed        uint64 `json:"seed"`
	From, Count uint64
	Runs        uint64            `json:"runs"`
	Nontrivial  uint64            `json:"nontrivial"`
	Stats       Stats             `json:"stats"`
	Scripts     []string          `json:"script_digests"` // digests of non-trivial scripts (for distinct counting)
	States      []string          `json:"state_digests"`
	LogDigests  map[string]string `json:"log_digests,omitempty"` // run index -> event-log digest
	Samples     []json.RawMessage `json:"samples"`
	Violations  []FoundViolation  `json:"violations"`
	Recheck     int               `json:"recheck"`      // runs re-executed in-process for determinism
	RecheckDiff int               `json:"recheck_diff"` // ... of which the digest differed (harness defect)
	WallS       float64           `json:"wall_s"`
	StoppedBy   string            `json:"stopped_by"`
}

// ---------------------------------------------------------------- engine registry

// Engine binds a property to its generator, executor and script decoder.
type Engine struct {
	Prop   string
	Gen    func(r *Rand, tier string) Script
	Exec   Exec
	Decode func([]byte) (Script, error)
	// Sched is true for engines that need the instrumented (simrt) build.
	Sched bool
	// Concretize turns a strategy-driven scheduled script into one with an explicit schedule (for shrinking).
	Concretize func(Script, *Outcome) Script
}

var Engines = map[string]*Engine{}

func Register(e *Engine) { Engines[e.Prop] = e }
