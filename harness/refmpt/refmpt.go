// Package refmpt is an independent implementation of the state trie's
// published node-hash format, applied to the canonical trie of a content set.
// It imports nothing from core/util (only sha3).
//
//	hash(node)  = sha3-256( LE64(origin) || body )
//	leaf body   = prefix ':' path ':' value          (prefix = path consumed above the leaf)
//	branch body = 16 x ( hex(childHash)? ':' ) value?
//	ext body    = path ':' rawChildHash
//
// Canonical shape: no entries -> nil root; one entry below a point -> leaf;
// several entries with a non-empty common prefix -> extension to a branch; a
// branch holds the value of the entry ending exactly there; a branch never has
// one child and no value.
package refmpt

import (
	"encoding/binary"
	"encoding/hex"
	"sort"

	"golang.org/x/crypto/sha3"
)

type entry struct {
	rest  string
	value []byte
}

// Node is a node of the reference trie (exported for the shape probes).
type Node struct {
	Kind     byte // 'L', 'B', 'E'
	Prefix   string
	Path     string
	Value    []byte
	Children [16]*Node
	Next     *Node
	Hash     []byte
}

func h(origin int64, body []byte) []byte {
	var o [8]byte
	binary.LittleEndian.PutUint64(o[:], uint64(origin))
	d := sha3.New256()
	d.Write(o[:])
	d.Write(body)
	return d.Sum(nil)
}

func idx(c byte) int {
	switch {
	case c >= '0' && c <= '9':
		return int(c - '0')
	case c >= 'a' && c <= 'f':
		return int(c-'a') + 10
	}
	panic("refmpt: bad path element")
}

// Build returns the canonical trie for content (path -> value) at origin.
func Build(content map[string][]byte, origin int64) *Node {
	es := make([]entry, 0, len(content))
	for p, v := range content {
		es = append(es, entry{p, v})
	}
	sort.Slice(es, func(a, b int) bool { return es[a].rest < es[b].rest })
	return build(es, "", origin)
}

// Root returns the canonical root hash (nil for empty content).
func Root(content map[string][]byte, origin int64) []byte {
	n := Build(content, origin)
	if n == nil {
		return nil
	}
	return n.Hash
}

func lcp(es []entry) string {
	p := es[0].rest
	for _, e := range es[1:] {
		i := 0
		for i < len(p) && i < len(e.rest) && p[i] == e.rest[i] {
			i++
		}
		p = p[:i]
	}
	return p
}

func build(es []entry, consumed string, origin int64) *Node {
	switch len(es) {
	case 0:
		return nil
	case 1:
		n := &Node{Kind: 'L', Prefix: consumed, Path: es[0].rest, Value: es[0].value}
		body := append([]byte(consumed), ':')
		body = append(body, es[0].rest...)
		body = append(body, ':')
		body = append(body, es[0].value...)
		n.Hash = h(origin, body)
		return n
	}
	if p := lcp(es); len(p) > 0 {
		sub := make([]entry, len(es))
		for i, e := range es {
			sub[i] = entry{e.rest[len(p):], e.value}
		}
		b := branch(sub, consumed+p, origin)
		n := &Node{Kind: 'E', Path: p, Next: b}
		body := append([]byte(p), ':')
		body = append(body, b.Hash...)
		n.Hash = h(origin, body)
		return n
	}
	return branch(es, consumed, origin)
}

func branch(es []entry, consumed string, origin int64) *Node {
	n := &Node{Kind: 'B', Prefix: consumed}
	groups := [16][]entry{}
	for _, e := range es {
		if e.rest == "" {
			n.Value = e.value
			continue
		}
		i := idx(e.rest[0])
		groups[i] = append(groups[i], entry{e.rest[1:], e.value})
	}
	var body []byte
	for i := 0; i < 16; i++ {
		if len(groups[i]) > 0 {
			c := build(groups[i], consumed+string("0123456789abcdef"[i]), origin)
			n.Children[i] = c
			body = append(body, hex.EncodeToString(c.Hash)...)
		}
		body = append(body, ':')
	}
	body = append(body, n.Value...)
	n.Hash = h(origin, body)
	return n
}

// Shape returns a compact string describing the canonical shape (for probes
// and distinct-state counting), without values.
func Shape(n *Node) string {
	if n == nil {
		return "-"
	}
	switch n.Kind {
	case 'L':
		return "L" + itoa(len(n.Path))
	case 'E':
		return "E" + itoa(len(n.Path)) + "(" + Shape(n.Next) + ")"
	}
	s := "B"
	if n.Value != nil {
		s += "v"
	}
	s += "["
	for i, c := range n.Children {
		if c != nil {
			s += string("0123456789abcdef"[i]) + Shape(c)
		}
	}
	return s + "]"
}

func itoa(i int) string {
	if i == 0 {
		return "0"
	}
	s := ""
	for i > 0 {
		s = string(rune('0'+i%10)) + s
		i /= 10
	}
	return s
}
