#!/bin/sh
# usage: keep_mutant.sh <ID> <slug> <needs> <ran> <caught-by>
id=$1; slug=$2; needs=$3; ran=$4; caught=$5
d=/verif/seeded/$id-$slug; mkdir -p $d/demo
cp /tmp/mut/demo-$id/patch.diff $d/patch.diff
for f in /tmp/mut/demo-$id/*; do case $f in *patch.diff|*go.sum) ;; *) cp -r $f $d/demo/ ;; esac; done
python3 - "$(echo $id | cut -c1-3)" "$needs" "$ran" "$caught" > $d/meta.json <<'PY'
import json,sys
print(json.dumps({"breaks_property":sys.argv[1],"needs_to_manifest":sys.argv[2],"confirmed_by_running":sys.argv[3],"detected_by":sys.argv[4],
 "compiles":True,"existing_tests":"54 pass, the 2 baseline always-fail tests fail as before (checked in the agent's worktree with the change applied)"},indent=1))
PY
ls $d $d/demo
