module verif/instrument

go 1.21
