// instrument rewrites a scratch copy of the repository in place:
//   - in every non-test Go file, X.Lock()/RLock()/Unlock()/RUnlock() (also deferred)
//     become simrt.Lock(&X, site) etc. (module-wide, see DESIGN.md section 4.5);
//   - in the anchored files, simrt.Yield(site) is inserted before every statement
//     that contains a call or touches state through a selector/index expression.
//
// It writes sites.tsv (site -> file:line, kind).
package main

import (
	"bytes"
	"flag"
	"fmt"
	"go/ast"
	"go/format"
	"go/parser"
	"go/token"
	"os"
	"path/filepath"
	"strings"
)

var site = 0
var rangesRewritten = 0
var locksOnly = false
var sitesOut []string

func newSite(fset *token.FileSet, pos token.Pos, kind string) *ast.BasicLit {
	site++
	p := fset.Position(pos)
	sitesOut = append(sitesOut, fmt.Sprintf("%d\t%s:%d\t%s", site, p.Filename, p.Line, kind))
	return &ast.BasicLit{Kind: token.INT, Value: fmt.Sprint(site)}
}

func lockCall(e ast.Expr) (recv ast.Expr, name string, ok bool) {
	c, isCall := e.(*ast.CallExpr)
	if !isCall || len(c.Args) != 0 {
		return nil, "", false
	}
	s, isSel := c.Fun.(*ast.SelectorExpr)
	if !isSel {
		return nil, "", false
	}
	switch s.Sel.Name {
	case "Lock", "RLock", "Unlock", "RUnlock":
		return s.X, s.Sel.Name, true
	}
	return nil, "", false
}

func simCall(name string, args ...ast.Expr) *ast.CallExpr {
	return &ast.CallExpr{Fun: &ast.SelectorExpr{X: ast.NewIdent("simrt"), Sel: ast.NewIdent(name)}, Args: args}
}

// interesting: statement touches shared state (has a call, or assigns via selector/index)
func interesting(s ast.Stmt) bool {
	switch st := s.(type) {
	case *ast.DeclStmt, *ast.DeferStmt, *ast.LabeledStmt, *ast.BlockStmt, *ast.BranchStmt, *ast.EmptyStmt:
		return false
	case *ast.IfStmt:
		return hasCall(st.Init) || hasCall(st.Cond)
	case *ast.ForStmt:
		return hasCall(st.Init) || hasCall(st.Cond)
	case *ast.RangeStmt:
		return true
	case *ast.SwitchStmt:
		return hasCall(st.Init) || hasCall(st.Tag)
	case *ast.TypeSwitchStmt, *ast.SelectStmt:
		return false
	case *ast.ReturnStmt:
		for _, r := range st.Results {
			if hasCall(r) {
				return true
			}
		}
		return false
	case *ast.AssignStmt:
		for _, l := range st.Lhs {
			switch l.(type) {
			case *ast.SelectorExpr, *ast.IndexExpr, *ast.StarExpr:
				return true
			}
		}
		for _, r := range st.Rhs {
			if hasCall(r) || hasSel(r) {
				return true
			}
		}
		return false
	case *ast.IncDecStmt:
		return true
	case *ast.ExprStmt:
		return true
	case *ast.GoStmt, *ast.SendStmt:
		return true
	}
	return false
}

func hasCall(n ast.Node) bool {
	if n == nil || isNilNode(n) {
		return false
	}
	found := false
	ast.Inspect(n, func(x ast.Node) bool {
		if _, ok := x.(*ast.FuncLit); ok {
			return false
		}
		if c, ok := x.(*ast.CallExpr); ok {
			if id, ok := c.Fun.(*ast.Ident); ok {
				switch id.Name {
				case "len", "cap", "make", "new", "append", "copy", "string", "byte", "int", "int64", "uint64", "panic":
					return true
				}
			}
			found = true
		}
		return !found
	})
	return found
}

func hasSel(n ast.Node) bool {
	found := false
	ast.Inspect(n, func(x ast.Node) bool {
		if _, ok := x.(*ast.FuncLit); ok {
			return false
		}
		switch x.(type) {
		case *ast.SelectorExpr, *ast.IndexExpr:
			found = true
		}
		return !found
	})
	return found
}

func isNilNode(n ast.Node) bool {
	switch v := n.(type) {
	case ast.Stmt:
		return v == nil
	case ast.Expr:
		return v == nil
	}
	return false
}

func isLoggingCall(s ast.Stmt) bool {
	es, ok := s.(*ast.ExprStmt)
	if !ok {
		return false
	}
	var b bytes.Buffer
	format.Node(&b, token.NewFileSet(), es.X)
	t := b.String()
	return strings.HasPrefix(t, "logging.Logger.") || strings.HasPrefix(t, "Logger.")
}

// Maps of the code under test that are ranged over while their iteration order can influence what other
// tasks observe (order of writes, of yield points): in the instrumented copy they are visited in key order, so
// that a run is a function of its script. All of them have string-kinded keys.
var orderedRanges = map[string]bool{"cc.Changes": true, "cc.Deletes": true, "mndb.Nodes": true, "bc.cache": true, "tc.cache": true}

// rewriteRange turns `for k, v := range M { body }` into
// `for _, k := range simrt.Keys(M) { v, ok := M[k]; if !ok { continue }; body }`.
func rewriteRange(r *ast.RangeStmt) bool {
	var b bytes.Buffer
	format.Node(&b, token.NewFileSet(), r.X)
	if !orderedRanges[b.String()] || r.Tok != token.DEFINE {
		return false
	}
	key := ast.NewIdent("simrtKey")
	if id, ok := r.Key.(*ast.Ident); ok && id.Name != "_" {
		key = id
	}
	m := r.X
	var pre []ast.Stmt
	if id, ok := r.Value.(*ast.Ident); ok && id.Name != "_" {
		okID := ast.NewIdent("simrtOK")
		pre = append(pre,
			&ast.AssignStmt{Lhs: []ast.Expr{id, okID}, Tok: token.DEFINE, Rhs: []ast.Expr{&ast.IndexExpr{X: m, Index: key}}},
			&ast.IfStmt{Cond: &ast.UnaryExpr{Op: token.NOT, X: okID}, Body: &ast.BlockStmt{List: []ast.Stmt{&ast.BranchStmt{Tok: token.CONTINUE}}}})
	}
	r.Key = ast.NewIdent("_")
	r.Value = key
	r.X = simCall("Keys", m)
	r.Body.List = append(pre, r.Body.List...)
	rangesRewritten++
	return true
}

func isSimrtCall(s ast.Stmt) bool {
	var x ast.Expr
	switch st := s.(type) {
	case *ast.ExprStmt:
		x = st.X
	case *ast.SwitchStmt: // switch simrt.Pick(...) {...}
		x = st.Tag
	default:
		return false
	}
	c, ok := x.(*ast.CallExpr)
	if !ok {
		return false
	}
	sel, ok := c.Fun.(*ast.SelectorExpr)
	if !ok {
		return false
	}
	id, ok := sel.X.(*ast.Ident)
	return ok && id.Name == "simrt"
}

// bareBreak: does the statement list contain a `break` without label that would leave the enclosing select?
func bareBreak(list []ast.Stmt) bool {
	found := false
	var visit func(n ast.Node) bool
	visit = func(n ast.Node) bool {
		switch x := n.(type) {
		case *ast.ForStmt, *ast.RangeStmt, *ast.SwitchStmt, *ast.TypeSwitchStmt, *ast.SelectStmt, *ast.FuncLit:
			return false // a break in there leaves that statement
		case *ast.BranchStmt:
			if x.Tok == token.BREAK && x.Label == nil {
				found = true
			}
		}
		return !found
	}
	for _, s := range list {
		ast.Inspect(s, visit)
	}
	return found
}

var selectsRewritten, gosRewritten = 0, 0

// rewriteSelect turns a blocking select (no default clause) into a polling loop the scheduler can see:
//
//	_simselN:
//	for {
//		select { case <first comm>: body; break _simselN; default: }
//		select { case <second comm>: body; break _simselN; default: }
//		simrt.Idle(site)            // blocked until another task has made a step
//	}
//
// Which case is looked at first is chosen by the scheduler (simrt.Pick), then the cases are tried in source order,
// so which ready case is taken is a function of the schedule (Go's select picks among ready cases at random).
// Selects whose bodies `break` out of the select are left alone.
func rewriteSelect(fset *token.FileSet, st *ast.SelectStmt) ast.Stmt {
	for _, c := range st.Body.List {
		cc := c.(*ast.CommClause)
		if cc.Comm == nil || bareBreak(cc.Body) {
			return nil
		}
	}
	selectsRewritten++
	label := ast.NewIdent(fmt.Sprintf("_simsel%d", selectsRewritten))
	var body []ast.Stmt
	mk := func(cc *ast.CommClause) ast.Stmt {
		one := &ast.CommClause{Case: cc.Case, Colon: cc.Colon, Comm: cc.Comm, Body: append(append([]ast.Stmt{}, cc.Body...), &ast.BranchStmt{TokPos: cc.End(), Tok: token.BREAK, Label: ast.NewIdent(label.Name)})}
		return &ast.SelectStmt{Select: cc.Case, Body: &ast.BlockStmt{Lbrace: cc.Case, Rbrace: cc.End(), List: []ast.Stmt{one, &ast.CommClause{Case: cc.End(), Colon: cc.End()}}}}
	}
	if n := len(st.Body.List); n > 1 {
		// which case is looked at first is the scheduler's choice (simrt.Pick): Go's select picks among ready cases at random
		sw := &ast.SwitchStmt{Switch: st.Pos(), Tag: simCall("Pick", newSite(fset, st.Pos(), "pick"), &ast.BasicLit{Kind: token.INT, Value: fmt.Sprint(n)}), Body: &ast.BlockStmt{Lbrace: st.Pos(), Rbrace: st.Pos()}}
		for i := 1; i < n; i++ {
			sw.Body.List = append(sw.Body.List, &ast.CaseClause{Case: st.Pos(), Colon: st.Pos(), List: []ast.Expr{&ast.BasicLit{Kind: token.INT, Value: fmt.Sprint(i)}}, Body: []ast.Stmt{mk(st.Body.List[i].(*ast.CommClause))}})
		}
		body = append(body, sw)
	}
	for _, c := range st.Body.List {
		cc := c.(*ast.CommClause)
		// (positions are carried over so that the printer keeps the file's comments where they were)
		one := &ast.CommClause{Case: cc.Case, Colon: cc.Colon, Comm: cc.Comm, Body: append(append([]ast.Stmt{}, cc.Body...), &ast.BranchStmt{TokPos: cc.End(), Tok: token.BREAK, Label: ast.NewIdent(label.Name)})}
		body = append(body, &ast.SelectStmt{Select: cc.Case, Body: &ast.BlockStmt{Lbrace: cc.Case, Rbrace: cc.End(), List: []ast.Stmt{one, &ast.CommClause{Case: cc.End(), Colon: cc.End()}}}})
	}
	body = append(body, &ast.ExprStmt{X: simCall("Idle", newSite(fset, st.Pos(), "idle"))})
	// (no yield inside the loop: a fruitless poll must be one step that ends in Idle, see simrt.loop)
	return &ast.LabeledStmt{Label: label, Colon: st.Pos(), Stmt: &ast.ForStmt{For: st.Pos(), Body: &ast.BlockStmt{Lbrace: st.Body.Lbrace, Rbrace: st.Body.Rbrace, List: body}}}
}

func rewriteList(fset *token.FileSet, list []ast.Stmt) []ast.Stmt {
	var out []ast.Stmt
	for _, s := range list {
		if isSimrtCall(s) {
			out = append(out, s)
			continue
		}
		switch st := s.(type) {
		case *ast.GoStmt:
			// go func() {...}()  ->  simrt.Go(func() {...}): the goroutine becomes a scheduled task
			if fl, ok := st.Call.Fun.(*ast.FuncLit); ok && !locksOnly && len(st.Call.Args) == 0 && len(fl.Type.Params.List) == 0 {
				gosRewritten++
				out = append(out, &ast.ExprStmt{X: simCall("Yield", newSite(fset, s.Pos(), "go"))}, &ast.ExprStmt{X: simCall("Go", fl)})
				continue
			}
		case *ast.SelectStmt:
			if !locksOnly {
				if ns := rewriteSelect(fset, st); ns != nil {
					out = append(out, &ast.ExprStmt{X: simCall("Yield", newSite(fset, st.Pos(), "select"))}, ns)
					continue
				}
			}
		case *ast.ExprStmt:
			if recv, name, ok := lockCall(st.X); ok {
				out = append(out, &ast.ExprStmt{X: simCall(name, &ast.UnaryExpr{Op: token.AND, X: recv}, newSite(fset, s.Pos(), name))})
				continue
			}
		case *ast.DeferStmt:
			if recv, name, ok := lockCall(st.Call); ok {
				st.Call = simCall(name, &ast.UnaryExpr{Op: token.AND, X: recv}, newSite(fset, s.Pos(), "defer "+name))
				out = append(out, st)
				continue
			}
		}
		if !locksOnly && interesting(s) && !isLoggingCall(s) {
			out = append(out, &ast.ExprStmt{X: simCall("Yield", newSite(fset, s.Pos(), "yield"))})
		}
		out = append(out, s)
	}
	return out
}

// anchored files (relative to the repository root) that get yield points
var anchored = []string{
	"core/statecache/statecache.go",
	"core/statecache/blockcache.go",
	"core/statecache/transactioncache.go",
	"core/statecache/queryblockcache.go",
	"core/util/merkle_patricia_trie.go",
	"core/util/mpt_node_change.go",
	"core/util/mpt_nodedb.go",
	"core/logging/inmemory_logger.go",
}

func instrumentFile(root, fn string, yields bool) error {
	locksOnly = !yields
	fset := token.NewFileSet()
	f, err := parser.ParseFile(fset, fn, nil, parser.ParseComments)
	if err != nil {
		return err
	}
	before := site + rangesRewritten
	if yields {
		ast.Inspect(f, func(n ast.Node) bool {
			if r, ok := n.(*ast.RangeStmt); ok {
				rewriteRange(r)
			}
			return true
		})
	}
	ast.Inspect(f, func(n ast.Node) bool {
		switch b := n.(type) {
		case *ast.BlockStmt:
			b.List = rewriteList(fset, b.List)
		case *ast.CaseClause:
			b.Body = rewriteList(fset, b.Body)
		case *ast.CommClause:
			b.Body = rewriteList(fset, b.Body)
		}
		return true
	})
	if site+rangesRewritten == before {
		return nil // untouched
	}
	imp := &ast.ImportSpec{Path: &ast.BasicLit{Kind: token.STRING, Value: `"verif/simrt"`}}
	f.Decls = append([]ast.Decl{&ast.GenDecl{Tok: token.IMPORT, Specs: []ast.Spec{imp}}}, f.Decls...)
	var buf bytes.Buffer
	if err := format.Node(&buf, fset, f); err != nil {
		return err
	}
	return os.WriteFile(fn, buf.Bytes(), 0644)
}

func main() {
	root := flag.String("root", "", "root of the scratch copy")
	sites := flag.String("sites", "sites.tsv", "output: site table")
	flag.Parse()
	if *root == "" {
		fmt.Fprintln(os.Stderr, "usage: instrument -root <copy>")
		os.Exit(2)
	}
	isAnchored := map[string]bool{}
	for _, a := range anchored {
		isAnchored[filepath.Join(*root, a)] = true
	}
	err := filepath.Walk(*root, func(p string, info os.FileInfo, err error) error {
		if err != nil {
			return err
		}
		if info.IsDir() {
			if info.Name() == ".git" || info.Name() == "vendor" {
				return filepath.SkipDir
			}
			return nil
		}
		if !strings.HasSuffix(p, ".go") || strings.HasSuffix(p, "_test.go") {
			return nil
		}
		return instrumentFile(*root, p, isAnchored[p])
	})
	if err != nil {
		fmt.Fprintln(os.Stderr, "instrument:", err)
		os.Exit(1)
	}
	for i := range sitesOut {
		sitesOut[i] = strings.Replace(sitesOut[i], *root+"/", "", 1)
	}
	os.WriteFile(*sites, []byte(strings.Join(sitesOut, "\n")+"\n"), 0644)
	fmt.Printf("instrumented: %d sites, %d go statements, %d selects\n", site, gosRewritten, selectsRewritten)
}
