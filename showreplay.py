#!/usr/bin/env python3
"""Pretty-print replay files (values decoded from base64)."""
import json,sys,base64
for f in sys.argv[1:]:
    r=json.load(open(f))
    v=r.get('violation') or {}
    print('==',f, v.get('oracle'),'|',v.get('class'),'|',v.get('detail'))
    s=r['script']
    print('  ',{k:v for k,v in s.items() if k not in('ops',)})
    for o in s.get('ops',[]):
        if 'v' in o and isinstance(o['v'],str):
            try: o['v']=base64.b64decode(o['v']).decode('latin1')
            except Exception: pass
        print('    ',o)
