#!/usr/bin/env python3
"""Pretty-print replay files (values decoded from base64)."""
import json,sys,base64
def show(o):
    if 'v' in o and isinstance(o['v'],str):
        try:
            d=base64.b64decode(o['v'],validate=True).decode('latin1')
            if d.isprintable() and len(o['v'])%4==0 and len(o['v'])>=4: o['v']=d
        except Exception: pass
    return o
for f in sys.argv[1:]:
    r=json.load(open(f))
    v=r.get('violation') or {}
    print('==',f, v.get('oracle'),'|',v.get('class'),'|',v.get('detail'))
    s=r['script']
    print('  ',{k:v for k,v in s.items() if k not in('ops','tasks','schedule')})
    for o in s.get('ops') or []:
        print('    ',show(o))
    for i,t in enumerate(s.get('tasks') or []):
        print('   task',i)
        for o in (t or []): print('      ',show(o))
    if s.get('schedule'): print('   schedule',s['schedule'])
